#!/usr/bin/env python3
"""Regenerates /verif/MANIFEST.json (run from /verif)."""
import json, subprocess
T = {
 "C01": ("E5", "bounded-exhaustive crash exploration of the real parser+screen in isolated worker processes (all words/byte strings/chunkings up to a bound, wide parameter sweeps, BFS over API sequences)", "7 C01"),
 "C02": ("E1+E3", "bounded-exhaustive enumeration of streams x all partitions into chunks; implementation-vs-implementation state differential", "7 C02"),
 "C03": ("E1", "explicit-state reference recogniser; all words over the grammar-class alphabet up to a length bound (ground-pruned beyond) replayed on the real Parser and compared event by event", "7 C03"),
 "C04": ("E2", "explicit-state exploration of the real Screen (product base states x texts, every Unicode scalar value from U+0100, BFS with full-key dedup, unmerged history trees) refined against an executable reference model", "7 C04"),
 "C05": ("E2", "exhaustive enumeration of (state x movement op x parameter) per geometry on the real Screen vs closed-form reference", "7 C05"),
 "C06": ("E2", "explicit-state exploration (depth-1 product sweep + BFS over scroll histories + unmerged history tree + 300-round scroll cycles judged step by step) vs row-rotation reference model", "7 C06"),
 "C07": ("E2", "exhaustive enumeration of (state x erase op x selector) per geometry and of unmerged operation histories (trees to depth 5-8) vs reference model", "7 C07"),
 "C08": ("E4", "complete parameter-space enumeration (every SGR code 0..=9999 x rendition states, pairs/triples, extended-colour forms) and of unmerged SGR / DECSC / DECRC / reset histories vs independent fold + palette", "7 C08"),
 "C09": ("E2", "invariant checking over all states visited by a full-alphabet depth-1 sweep and a mixed-alphabet BFS (explicit-state, full-key dedup)", "7 C09"),
 "C10": ("E2", "2-run differential over exhaustively enumerated histories (display interposed or not; display - [clear dirty] - op - display) + rendering recomputed from the grid", "7 C10"),
 "C11": ("E3", "all byte strings over a UTF-8 class alphabet up to a length bound x all chunkings on the real ByteParser vs std lossy decoding, checked after every chunk", "7 C11"),
 "C12": ("E4+E2", "complete enumeration of mode numbers x {private,ANSI} x {SM,RM} from representative states + BFS interleavings vs reference model", "7 C12"),
 "C13": ("E2", "explicit-state exploration (depth-1 sweep + BFS over ICH/DCH/IRM/EL/resize interleavings, full-key dedup) vs list-splice reference", "7 C13"),
 "C14": ("E2", "explicit-state exploration of save/restore histories (BFS, full-key dedup) vs stack reference model + stack frame condition on every other op", "7 C14"),
 "C15": ("E2", "model-free comparison of reset(s) with a new screen over all explored states: observable view and full state key (equal key => equal futures), bounded continuations otherwise", "7 C15"),
 "C16": ("E2", "explicit-state exploration: resize to every size from every base state + BFS and unmerged trees over resize sequences interleaved with edits and scrolls, DECCOLM excursions followed by grows, vs crop/extend reference", "7 C16"),
 "C17": ("E2", "model-free dirty-rule check on every transition of a full-alphabet sweep and a BFS with clear_dirty as an operation", "7 C17"),
 "C18": ("E4", "complete enumeration: widths 1..=140, every stop subset on small widths x every cursor x HT/HTS/TBC, width changes, vs closed form", "7 C18"),
 "C19": ("E1", "all OSC payloads over a payload alphabet up to a length bound x codes x introducers x terminators x 2-way chunkings on a real Screen vs closed-form expectation", "7 C19"),
 "C20": ("E4", "complete enumeration of 4x256 table entries and 256 code points x tables x slots x shifts (API and 8-bit parser path), every scalar value above 255, and all words of <= 5-6 charset controls through one parser, vs independently written tables", "7 C20"),
}
hooks_commit = subprocess.check_output(["git","-C","/repo","log","--format=%h","--grep=verif hook"]).decode().split()
checks=[]
for pid,(eng,tech,ref) in sorted(T.items()):
    checks.append({
      "property_id":pid,
      "quick_cmd":f"./check {pid} quick",
      "thorough_cmd":f"./check {pid} thorough",
      "evidence_file":f"/verif/evidence/{pid}.json",
      "replay_cmd_template":"./check replay {path}",
      "engine":eng,
      "level_claimed":{"category":"model_checking","text":"Bounded-exhaustive exploration: every case in a finite, explicitly stated space (states x operations x parameters, words, byte strings, chunkings, histories up to a depth) is executed on the real implementation and judged by a reference model started from the same pre-state, an invariant, or a second run of the implementation. No sampling, no solver. Bounds and counts are in the evidence.","design_ref":f"DESIGN.md section {ref}"},
      "level_note":"Holds within the stated bounds (geometries incl. 260x3 / 3x260 and sizes up to 70000, depths, alphabets, lengths; all listed in the evidence under coverage.bounds); unicode width/normalisation tables shared with the subject are trusted; HashMap iteration order is not controlled; the declared don't-care regions D1..D15 (DESIGN.md sections 5 and 12.2) are not compared; internal state that the harness's state key cannot see is only reached through the no-merge history trees and the depth-1 sweeps.",
      "technique":tech,
    })
m={
 "version":1,
 "setup_cmd":"./check build",
 "hooks":{"guard":"memterm_verif","enable":"RUSTFLAGS=\"--cfg memterm_verif\" exported by ./check; the harness crate /verif/mc depends on /repo by path and is rebuilt from /repo's working tree on every check","baseline_off_cmd":"cd /repo && cargo test --workspace --no-fail-fast --offline","source_commits":hooks_commit,"add_only":True},
 "engines":[{"name":"mc","path":"/verif/mc","serves_properties":sorted(T),"kind_free_text":"Rust harness: explicit-state explorer over real memterm Screens (fork-isolated sweeps, multi-threaded BFS with full-key dedup), executable reference screen model, explicit-state reference recogniser, streaming-decoder reference; engines E1..E5 of DESIGN.md"}],
 "checks":checks,
 "not_applicable":[],
 "notes":"See DESIGN.md. ./check <Cxx> <tier> exits 0 (held), 1 (VIOLATION lines), 2 (machinery error, never a verdict). known_findings.json lists the repaired defects (status=fixed, suppress nothing)."
}
json.dump(m,open('MANIFEST.json','w'),indent=1)
print("checks:",len(checks))
