#!/usr/bin/env python3
"""Adds the builder's verification record to every /verif/seeded/*/meta.json."""
import json, glob, os
for d in sorted(glob.glob("/verif/seeded/*")):
    mp = d + "/meta.json"
    try:
        m = json.load(open(mp))
    except Exception:
        continue
    neutral = os.path.basename(d).startswith("neutral")
    if neutral:
        m["builder_verified"] = {"how": "patch applies to /repo HEAD; cargo test --offline: 91 passed; tools/run_seed.py <dir> runs all twenty quick checks with the patch applied to /repo and reverts it",
                                 "expectation": "no check may raise a VIOLATION (behaviour-preserving change)"}
    else:
        m["builder_verified"] = {"how": "tools/verify_seed.sh in a scratch worktree under /tmp/scratch: patch applies to HEAD; cargo test --offline --lib: 91 passed, 0 failed; doctests pass; demo.rs (as tests/seed_demo.rs) passes on HEAD and FAILS with the patch; then tools/run_seed.py applies the patch to /repo, runs ./check <target> quick and reverts",
                                 "expectation": "the target property's quick check exits 1 with a VIOLATION line"}
    if os.path.exists(d + "/check_results.json"):
        r = json.load(open(d + "/check_results.json"))
        if "detected_by" in r:
            m["builder_verified"]["detected_by_quick_checks"] = r["detected_by"]
        else:
            m["builder_verified"]["detected_by_quick_checks"] = [k for k, v in r.items() if v.get("exit") == 1]
    json.dump(m, open(mp, "w"), indent=1)
print("annotated")
