#!/usr/bin/env python3
"""Apply a seeded change to /repo, run the given (or all) quick checks, undo it.
usage: tools/run_seed.py <seed-dir> [Cxx ...]   (seed-dir contains patch.diff)
Prints which checks raise a VIOLATION. Never commits anything in /repo."""
import subprocess, sys, json, os, time
seed = os.path.abspath(sys.argv[1])
props = sys.argv[2:] or ["C%02d" % i for i in range(1, 21)]
tier = os.environ.get("TIER", "quick")
patch = os.path.join(seed, "patch.diff")
st = subprocess.run(["git", "-C", "/repo", "status", "--porcelain", "--untracked-files=no"], capture_output=True, text=True).stdout.strip()
if st:
    print("refusing: /repo has local modifications:\n" + st); sys.exit(2)
r = subprocess.run(["git", "-C", "/repo", "apply", patch], capture_output=True, text=True)
if r.returncode != 0:
    print("patch does not apply:", r.stderr); sys.exit(2)
res = {}
# runs against a seeded change must never overwrite the evidence / replay files of the real tree
os.environ["VERIF_OUT_DIR"] = "/verif/target/seed-out"
import signal
def _bail(signum, frame):
    raise KeyboardInterrupt()
signal.signal(signal.SIGTERM, _bail)
try:
    for p in props:
        t0 = time.time()
        r = subprocess.run(["/verif/check", p, tier], capture_output=True, text=True, cwd="/verif")
        sigs = [l.strip() for l in r.stdout.splitlines() if l.strip().startswith("signature:")]
        res[p] = {"exit": r.returncode, "wall": round(time.time() - t0, 1), "signatures": sigs[:6],
                  "machinery": [l for l in (r.stdout + r.stderr).splitlines() if "MACHINERY" in l][:3]}
        print(p, "exit", r.returncode, "%.1fs" % (time.time() - t0), "; ".join(sigs[:3]), flush=True)
finally:
    subprocess.run(["git", "-C", "/repo", "checkout", "--", "."])
detected = [p for p, v in res.items() if v["exit"] == 1]
print("DETECTED BY:", detected)
json.dump(res, open(os.path.join(seed, "check_results.json"), "w"), indent=1)
