#!/usr/bin/env python3
"""Run quick (or TIER=thorough) checks against one candidate change in a private copy of /repo and
/verif/mc under /tmp/scratch/try_<slot>, so that several candidates can be tried at once and /repo is
never touched. The slot (with its build output) is kept between calls; `--clean <slot>` removes it.
usage: tools/try_seed.py <slot> <dir-with-patch.diff> [Cxx ...]
       tools/try_seed.py --clean <slot>
Writes <dir>/check_results.json. Exit 0 if at least one check raised a VIOLATION, 1 if none, 2 on a
machinery error (patch does not apply, build failed)."""
import subprocess, sys, json, os, shutil, time

def clean(slot):
    U = "/tmp/scratch/try_" + slot
    subprocess.run(["git", "-C", "/repo", "worktree", "remove", "--force", U + "/repo"], capture_output=True)
    shutil.rmtree(U, ignore_errors=True)

if sys.argv[1] == "--clean":
    clean(sys.argv[2]); sys.exit(0)
slot, d = sys.argv[1], os.path.abspath(sys.argv[2])
props = sys.argv[3:] or ["C%02d" % i for i in range(1, 21)]
tier = os.environ.get("TIER", "quick")
U = "/tmp/scratch/try_" + slot
repo, verif = U + "/repo", U + "/verif"
os.makedirs(U, exist_ok=True)
head = subprocess.run(["git", "-C", "/repo", "rev-parse", "HEAD"], capture_output=True, text=True).stdout.strip()
if os.path.exists(repo):
    subprocess.run(["git", "-C", repo, "checkout", "-q", "--detach", head], check=True)
    subprocess.run(["git", "-C", repo, "checkout", "--", "."], check=True)
else:
    subprocess.run(["git", "-C", "/repo", "worktree", "add", "-q", "--detach", repo, "HEAD"], check=True)
os.makedirs(verif, exist_ok=True)
for f in ["check", "known_findings.json"]:
    shutil.copy("/verif/" + f, verif + "/" + f)
shutil.rmtree(verif + "/mc", ignore_errors=True)
shutil.copytree("/verif/mc", verif + "/mc", ignore=shutil.ignore_patterns("target"))
ct = open(verif + "/mc/Cargo.toml").read().replace('path = "/repo"', 'path = "%s"' % repo)
open(verif + "/mc/Cargo.toml", "w").write(ct)
cfg = open(verif + "/mc/.cargo/config.toml").read().replace("/verif/target", verif + "/target")
open(verif + "/mc/.cargo/config.toml", "w").write(cfg)
env = dict(os.environ, VERIF_REPO=repo, VERIF_THREADS=os.environ.get("TRY_THREADS", "6"))
env.pop("VERIF_OUT_DIR", None)
r = subprocess.run(["git", "-C", repo, "apply", d + "/patch.diff"], capture_output=True, text=True)
if r.returncode != 0:
    print(slot, d, "patch does not apply", r.stderr); sys.exit(2)
res = {}
try:
    for p in props:
        t0 = time.time()
        r = subprocess.run([verif + "/check", p, tier], capture_output=True, text=True, cwd=verif, env=env)
        sigs = [l.strip()[11:] for l in r.stdout.splitlines() if l.strip().startswith("signature:")]
        res[p] = {"exit": r.returncode, "wall_s": round(time.time() - t0, 1), "signatures": sigs[:5]}
        if r.returncode not in (0, 1):
            res[p]["tail"] = (r.stdout + r.stderr)[-600:]
finally:
    subprocess.run(["git", "-C", repo, "checkout", "--", "."])
det = [p for p in props if res[p]["exit"] == 1]
odd = [p for p in props if res[p]["exit"] not in (0, 1)]
print(os.path.basename(d), "detected by", det, ("MACHINERY " + str(odd) + " " + res[odd[0]].get("tail", "")) if odd else "",
      "| " + "; ".join(res[det[0]]["signatures"][:2]) if det else "", flush=True)
json.dump({"tier": tier, "detected_by": det, "machinery_exit": odd, "per_check": res}, open(d + "/check_results.json", "w"), indent=1)
sys.exit(2 if odd else (0 if det else 1))
