#!/bin/bash
# usage: tools/verify_seed.sh <dir with patch.diff demo.rs meta.json> <seed name>
# Confirms in a scratch worktree (outside /repo and /verif) that the change compiles, keeps the
# repository's tests green, and that the demonstration fails with it and passes without it.
# On success copies the seed to /verif/seeded/<name>/ .
set -u
SRC=$1; NAME=$2
WT=/tmp/scratch/verify_$NAME
mkdir -p /tmp/scratch
git -C /repo worktree add -q --detach "$WT" HEAD || exit 2
cleanup() { git -C /repo worktree remove --force "$WT" >/dev/null 2>&1; rm -rf "$WT"; }
trap cleanup EXIT
cd "$WT" || exit 2
export CARGO_NET_OFFLINE=true CARGO_TARGET_DIR=/tmp/scratch/target_verify${VERIFY_SLOT:-}
mkdir -p tests
cp "$SRC/demo.rs" tests/seed_demo.rs
# 1. demo passes on the unmodified tree
if ! cargo test --offline --test seed_demo >/tmp/scratch/v_$NAME.clean.log 2>&1; then echo "REJECT $NAME: demo fails on the clean tree"; tail -5 /tmp/scratch/v_$NAME.clean.log; exit 1; fi
# 2. apply, existing tests must pass
if ! git apply "$SRC/patch.diff"; then echo "REJECT $NAME: patch does not apply"; exit 1; fi
rm tests/seed_demo.rs
cargo test --offline --lib >/tmp/scratch/v_$NAME.suite.log 2>&1
if ! grep -q "test result: ok. 91 passed; 0 failed" /tmp/scratch/v_$NAME.suite.log; then echo "REJECT $NAME: existing suite not green with the change"; grep "test result" /tmp/scratch/v_$NAME.suite.log; exit 1; fi
cargo test --offline --doc >/tmp/scratch/v_$NAME.doc.log 2>&1 || { echo "REJECT $NAME: doctests fail"; exit 1; }
# 3. demo fails with the change
cp "$SRC/demo.rs" tests/seed_demo.rs
if cargo test --offline --test seed_demo >/tmp/scratch/v_$NAME.mut.log 2>&1; then echo "REJECT $NAME: demo passes with the change"; exit 1; fi
if ! grep -q "test result: FAILED" /tmp/scratch/v_$NAME.mut.log; then echo "REJECT $NAME: demo did not run to a FAILED verdict (compile error?)"; tail -5 /tmp/scratch/v_$NAME.mut.log; exit 1; fi
mkdir -p /verif/seeded/$NAME
cp "$SRC/patch.diff" "$SRC/demo.rs" "$SRC/meta.json" /verif/seeded/$NAME/
echo "ACCEPT $NAME"
