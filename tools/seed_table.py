#!/usr/bin/env python3
"""Prints the seeded-change table (markdown) from /verif/seeded/*/meta.json and check_results.json."""
import json, glob, os
print("| seed | target | change (sub-agent's summary) | needs | caught by (quick checks) |")
print("|---|---|---|---|---|")
for d in sorted(glob.glob("/verif/seeded/*")):
    n = os.path.basename(d)
    try:
        m = json.load(open(d + "/meta.json"))
    except Exception:
        continue
    det = "(matrix not run yet)"
    if os.path.exists(d + "/check_results.json"):
        r = json.load(open(d + "/check_results.json"))
        if "detected_by" in r:
            det = ", ".join(r["detected_by"]) or "NONE"
            if r.get("machinery_exit"):
                det += " (exit 2: " + ", ".join(r["machinery_exit"]) + ")"
        else:
            det = ", ".join(k for k, v in r.items() if v.get("exit") == 1) + " (target check only)"
    clip = lambda s, k: (s[:k] + "...") if len(s) > k else s
    print("| %s | %s | %s | %s | %s |" % (n, m.get("property", "?"), clip(m.get("summary", "").replace("|", "/").replace("\n", " "), 220), clip(m.get("needs", "").replace("|", "/").replace("\n", " "), 160), det))
