#!/usr/bin/env python3
"""Prints the seeded-change table (markdown) from /verif/seeded/*/meta.json and check_results.json.
With --write, replaces the table under '### 12.7' in DESIGN.md."""
import json, glob, os, sys
rows = ["| seed | target | change (the sub-agent's own summary) | needs | caught by |", "|---|---|---|---|---|"]
clip = lambda s, k: (s[:k] + "...") if len(s) > k else s
for d in sorted(glob.glob("/verif/seeded/*")):
    n = os.path.basename(d)
    try:
        m = json.load(open(d + "/meta.json"))
    except Exception:
        continue
    res = {}
    if os.path.exists(d + "/check_results.json"):
        res = json.load(open(d + "/check_results.json"))
    hit = [k for k, v in res.items() if isinstance(v, dict) and v.get("exit") == 1]
    if "detected_by" in res:
        hit = res["detected_by"]
    summary = clip(m.get("summary", "").replace("|", "/").replace("\n", " "), 220)
    needs = clip(m.get("needs", "").replace("|", "/").replace("\n", " "), 160)
    if n.startswith("neutral"):
        target = "(none: behaviour-preserving)"
        det = "must stay silent: " + ("all checks run exit 0" if not hit else "FLAGGED BY " + ", ".join(hit))
        needs = "-"
    elif n.startswith("obsolete"):
        target = m.get("property", "?")
        det = "obsolete: " + clip(m.get("obsolete", ""), 200)
    elif n.startswith("contested"):
        target = m.get("property", "?")
        det = ", ".join(hit) + " (by decision, see 12.2)"
    else:
        target = m.get("property", "?")
        det = ", ".join(hit) if hit else "NONE"
    if m.get("rebased"):
        det += " (rebased)"
    rows.append("| %s | %s | %s | %s | %s |" % (n, target, summary, needs, det))
table = "\n".join(rows) + "\n"
if "--write" in sys.argv:
    p = "/verif/DESIGN.md"
    s = open(p).read()
    i = s.index("### 12.7 Seeded changes: the table")
    j = s.index("| seed | target |", i)
    s = s[:j] + table
    open(p, "w").write(s)
    print("DESIGN.md 12.7 rewritten:", len(rows) - 2, "rows")
else:
    sys.stdout.write(table)
