#!/usr/bin/env python3
"""Cross-detection matrix: every seeded change x every quick check, run in a private copy of
/repo and /verif under /tmp/scratch/matrix (so that /repo itself is never touched and other
work can go on). usage: tools/matrix.py [seed names...]  (default: all of /verif/seeded)"""
import subprocess, sys, json, os, shutil, time
U = "/tmp/scratch/matrix"
seeds = sys.argv[1:] or sorted(os.listdir("/verif/seeded"))
os.makedirs(U, exist_ok=True)
repo = U + "/repo"; verif = U + "/verif"
if os.path.exists(repo):
    subprocess.run(["git", "-C", "/repo", "worktree", "remove", "--force", repo])
    shutil.rmtree(repo, ignore_errors=True)
subprocess.run(["git", "-C", "/repo", "worktree", "add", "-q", "--detach", repo, "HEAD"], check=True)
shutil.rmtree(verif, ignore_errors=True)
os.makedirs(verif)
for f in ["check", "known_findings.json"]:
    shutil.copy("/verif/" + f, verif + "/" + f)
shutil.copytree("/verif/mc", verif + "/mc", ignore=shutil.ignore_patterns("target"))
ct = open(verif + "/mc/Cargo.toml").read().replace('path = "/repo"', 'path = "%s"' % repo)
open(verif + "/mc/Cargo.toml", "w").write(ct)
cfg = open(verif + "/mc/.cargo/config.toml").read().replace("/verif/target", verif + "/target")
open(verif + "/mc/.cargo/config.toml", "w").write(cfg)
env = dict(os.environ, VERIF_REPO=repo, VERIF_THREADS=os.environ.get("MATRIX_THREADS", "8"))
props = ["C%02d" % i for i in range(1, 21)]
for s in seeds:
    d = "/verif/seeded/" + s
    if not os.path.exists(d + "/patch.diff"):
        continue
    r = subprocess.run(["git", "-C", repo, "apply", d + "/patch.diff"], capture_output=True, text=True)
    if r.returncode != 0:
        print(s, "patch does not apply", r.stderr); continue
    res = {}
    for p in props:
        t0 = time.time()
        r = subprocess.run([verif + "/check", p, "quick"], capture_output=True, text=True, cwd=verif, env=env)
        sigs = [l.strip()[11:] for l in r.stdout.splitlines() if l.strip().startswith("signature:")]
        res[p] = {"exit": r.returncode, "wall_s": round(time.time() - t0, 1), "signatures": sigs[:5]}
    subprocess.run(["git", "-C", repo, "checkout", "--", "."])
    det = [p for p in props if res[p]["exit"] == 1]
    odd = [p for p in props if res[p]["exit"] not in (0, 1)]
    print(s, "detected by", det, ("MACHINERY " + str(odd)) if odd else "", flush=True)
    json.dump({"tier": "quick", "detected_by": det, "machinery_exit": odd, "per_check": res}, open(d + "/check_results.json", "w"), indent=1)
subprocess.run(["git", "-C", "/repo", "worktree", "remove", "--force", repo])
shutil.rmtree(U, ignore_errors=True)
