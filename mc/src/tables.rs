//! Independently written SGR tables, xterm palette and character-set tables
//! (DESIGN.md section 5 "SGR", "Charsets"; C08, C20).

pub fn fg_name(code: u32) -> Option<&'static str> {
    Some(match code {
        30 => "black",
        31 => "red",
        32 => "green",
        33 => "brown",
        34 => "blue",
        35 => "magenta",
        36 => "cyan",
        37 => "white",
        39 => "default",
        90 => "brightblack",
        91 => "brightred",
        92 => "brightgreen",
        93 => "brightbrown",
        94 => "brightblue",
        95 => "brightmagenta",
        96 => "brightcyan",
        97 => "brightwhite",
        _ => return None,
    })
}

pub fn bg_name(code: u32) -> Option<&'static str> {
    if (40..=47).contains(&code) || code == 49 || (100..=107).contains(&code) {
        fg_name(code - 10)
    } else {
        None
    }
}

/// xterm 256-colour palette entry as rrggbb.
pub fn palette(n: u32) -> String {
    const BASE: [(u32, u32, u32); 16] = [
        (0x00, 0x00, 0x00),
        (0xcd, 0x00, 0x00),
        (0x00, 0xcd, 0x00),
        (0xcd, 0xcd, 0x00),
        (0x00, 0x00, 0xee),
        (0xcd, 0x00, 0xcd),
        (0x00, 0xcd, 0xcd),
        (0xe5, 0xe5, 0xe5),
        (0x7f, 0x7f, 0x7f),
        (0xff, 0x00, 0x00),
        (0x00, 0xff, 0x00),
        (0xff, 0xff, 0x00),
        (0x5c, 0x5c, 0xff),
        (0xff, 0x00, 0xff),
        (0x00, 0xff, 0xff),
        (0xff, 0xff, 0xff),
    ];
    let (r, g, b) = if n < 16 {
        BASE[n as usize]
    } else if n < 232 {
        let i = n - 16;
        let lvl = |v: u32| if v == 0 { 0 } else { 55 + 40 * v };
        (lvl(i / 36), lvl((i / 6) % 6), lvl(i % 6))
    } else {
        let v = 8 + 10 * (n - 232);
        (v, v, v)
    };
    format!("{:02x}{:02x}{:02x}", r, g, b)
}

/// Flag bit set (true) / cleared (false) by an SGR attribute code.
pub fn text_flag(code: u32) -> Option<(u8, bool)> {
    use crate::snapshot::*;
    Some(match code {
        1 => (F_BOLD, true),
        3 => (F_ITALICS, true),
        4 => (F_UNDERSCORE, true),
        5 => (F_BLINK, true),
        7 => (F_REVERSE, true),
        9 => (F_STRIKE, true),
        22 => (F_BOLD, false),
        23 => (F_ITALICS, false),
        24 => (F_UNDERSCORE, false),
        25 => (F_BLINK, false),
        27 => (F_REVERSE, false),
        29 => (F_STRIKE, false),
        _ => return None,
    })
}

// ---------------------------------------------------------------- charsets

/// DEC Special Graphics (VT100) as published (with the Linux-console additions
/// 0x2b-0x2e arrows and 0x30 solid block).
pub fn vt100(c: u32) -> u32 {
    const G: [u32; 32] = [
        0x00a0, 0x25c6, 0x2592, 0x2409, 0x240c, 0x240d, 0x240a, 0x00b0, 0x00b1, 0x2591, 0x240b,
        0x2518, 0x2510, 0x250c, 0x2514, 0x253c, 0x23ba, 0x23bb, 0x2500, 0x23bc, 0x23bd, 0x251c,
        0x2524, 0x2534, 0x252c, 0x2502, 0x2264, 0x2265, 0x03c0, 0x2260, 0x00a3, 0x00b7,
    ];
    match c {
        0x2b => 0x2192,
        0x2c => 0x2190,
        0x2d => 0x2191,
        0x2e => 0x2193,
        0x30 => 0x2588,
        0x5f..=0x7e => G[(c - 0x5f) as usize],
        _ => c,
    }
}

/// IBM code page 437 including the graphic glyphs for 0x01..0x1f and 0x7f
/// (Linux IBMPC_MAP). 0x80..0xff generated from Python's cp437 codec.
pub fn cp437(c: u32) -> u32 {
    const LOW: [u32; 32] = [
        0x0000, 0x263a, 0x263b, 0x2665, 0x2666, 0x2663, 0x2660, 0x2022, 0x25d8, 0x25cb, 0x25d9,
        0x2642, 0x2640, 0x266a, 0x266b, 0x263c, 0x25b6, 0x25c0, 0x2195, 0x203c, 0x00b6, 0x00a7,
        0x25ac, 0x21a8, 0x2191, 0x2193, 0x2192, 0x2190, 0x221f, 0x2194, 0x25b2, 0x25bc,
    ];
    const HIGH: [u32; 128] = include!("cp437_high.in");
    match c {
        0..=0x1f => LOW[c as usize],
        0x7f => 0x2302,
        0x80..=0xff => HIGH[(c - 0x80) as usize],
        _ => c,
    }
}

/// VAX42: CP437 with eight published substitutions.
pub fn vax42(c: u32) -> u32 {
    match c as u8 {
        b'!' => 0x043b,
        b'?' => 0x0435,
        b'a' => 0x0441,
        b'h' => 0x0435,
        b'o' => 0x043a,
        b'r' => 0x0442,
        b't' => 0x043b,
        b'u' => 0x0435,
        _ => cp437(c),
    }
}

pub fn table_entry(id: &crate::snapshot::CsId, c: u32) -> char {
    use crate::snapshot::CsId::*;
    let v = match id {
        Lat1 => c,
        Vt100 => vt100(c),
        Ibmpc => cp437(c),
        Vax42 => vax42(c),
        Other(t) => return t[c as usize],
    };
    char::from_u32(v).unwrap()
}

pub fn table_for_code(code: &str) -> Option<crate::snapshot::CsId> {
    use crate::snapshot::CsId::*;
    Some(match code {
        "B" => Lat1,
        "0" => Vt100,
        "U" => Ibmpc,
        "V" => Vax42,
        _ => return None,
    })
}
