//! Process isolation: fork-based worker processes (single-threaded children for
//! parser-heavy engines), watchdog, crash reporting (DESIGN.md 3.2).

use std::time::{Duration, Instant};

use crate::report::Collector;

#[derive(Debug, Clone)]
pub struct Crash {
    pub child: usize,
    pub last_part: Option<usize>,
    pub how: String,
}

fn tmp_dir() -> String {
    let d = format!(
        "{}/target/mc-tmp/{}",
        std::env::var("VERIF_DIR").unwrap_or_else(|_| "/verif".to_string()),
        std::process::id()
    );
    let _ = std::fs::create_dir_all(&d);
    d
}

/// Run `f(part, &child_collector)` for part in 0..n_parts in `workers` forked
/// single-threaded children; merge their collectors into `c`. Must be called
/// from a single-threaded process. Returns the crashes (abnormal child ends).
pub fn fork_map<F: Fn(usize, &Collector)>(
    c: &Collector,
    n_parts: usize,
    timeout: Duration,
    f: F,
) -> Vec<Crash> {
    let workers = crate::explore::n_threads().min(n_parts.max(1));
    let dir = tmp_dir();
    static CALL: std::sync::atomic::AtomicUsize = std::sync::atomic::AtomicUsize::new(0);
    let call = CALL.fetch_add(1, std::sync::atomic::Ordering::Relaxed);
    let mut pids: Vec<(usize, libc::pid_t)> = Vec::new();
    for k in 0..workers {
        let res = format!("{}/c{}-w{}.json", dir, call, k);
        let prog = format!("{}/c{}-w{}.progress", dir, call, k);
        let _ = std::fs::remove_file(&res);
        let _ = std::fs::remove_file(&prog);
        let pid = unsafe { libc::fork() };
        if pid < 0 {
            panic!("fork failed");
        }
        if pid == 0 {
            // child: do not outlive the parent (whole-run watchdog, kill from outside)
            unsafe {
                libc::prctl(libc::PR_SET_PDEATHSIG, libc::SIGKILL);
            }
            limit_address_space();
            let cc = Collector::new(&c.property, &c.tier);
            let mut part = k;
            while part < n_parts {
                let _ = std::fs::write(&prog, format!("{}", part));
                f(part, &cc);
                part += workers;
            }
            let _ = std::fs::write(&prog, "done");
            let body = cc.to_json().to_string();
            let ok = std::fs::write(&res, body).is_ok();
            unsafe { libc::_exit(if ok { 0 } else { 3 }) };
        }
        pids.push((k, pid));
    }
    let start = Instant::now();
    let mut crashes = Vec::new();
    let mut pending = pids.clone();
    while !pending.is_empty() {
        let mut still = Vec::new();
        for (k, pid) in pending {
            let mut status: libc::c_int = 0;
            let r = unsafe { libc::waitpid(pid, &mut status, libc::WNOHANG) };
            if r == 0 {
                if start.elapsed() > timeout {
                    unsafe {
                        libc::kill(pid, libc::SIGKILL);
                        libc::waitpid(pid, &mut status, 0);
                    }
                    crashes.push(mk_crash(&dir, call, k, format!("timeout after {:?} (killed)", timeout)));
                } else {
                    still.push((k, pid));
                }
                continue;
            }
            let exited = libc::WIFEXITED(status);
            if exited && libc::WEXITSTATUS(status) == 0 {
                let res = format!("{}/c{}-w{}.json", dir, call, k);
                match std::fs::read_to_string(&res) {
                    Ok(t) => match serde_json::from_str(&t) {
                        Ok(v) => c.merge_json(&v),
                        Err(e) => crashes.push(mk_crash(&dir, call, k, format!("bad result file: {}", e))),
                    },
                    Err(e) => crashes.push(mk_crash(&dir, call, k, format!("no result file: {}", e))),
                }
                let _ = std::fs::remove_file(&res);
            } else if exited {
                crashes.push(mk_crash(&dir, call, k, format!("exit status {}", libc::WEXITSTATUS(status))));
            } else if libc::WIFSIGNALED(status) {
                crashes.push(mk_crash(&dir, call, k, format!("killed by signal {}", libc::WTERMSIG(status))));
            } else {
                crashes.push(mk_crash(&dir, call, k, format!("wait status {}", status)));
            }
        }
        pending = still;
        if !pending.is_empty() {
            std::thread::sleep(Duration::from_millis(5));
        }
    }
    for k in 0..workers {
        let _ = std::fs::remove_file(format!("{}/c{}-w{}.progress", dir, call, k));
    }
    crashes
}

/// Cap the worker's address space at its current size plus a margin (default 8 GiB,
/// VERIF_WORKER_MEM_GB): a subject that starts to materialise a huge grid then fails an
/// allocation and aborts -- an abnormal worker end the parent sees -- instead of inviting the
/// kernel's OOM killer to pick some process.
fn limit_address_space() {
    let gb: u64 = std::env::var("VERIF_WORKER_MEM_GB").ok().and_then(|s| s.parse().ok()).unwrap_or(8);
    let pages: u64 = std::fs::read_to_string("/proc/self/statm").ok().and_then(|t| t.split_whitespace().next().and_then(|x| x.parse().ok())).unwrap_or(0);
    if pages == 0 {
        return;
    }
    let page = unsafe { libc::sysconf(libc::_SC_PAGESIZE) }.max(4096) as u64;
    let lim = pages * page + (gb << 30);
    let rl = libc::rlimit { rlim_cur: lim as libc::rlim_t, rlim_max: lim as libc::rlim_t };
    unsafe {
        libc::setrlimit(libc::RLIMIT_AS, &rl);
    }
}

fn mk_crash(dir: &str, call: usize, k: usize, how: String) -> Crash {
    let prog = format!("{}/c{}-w{}.progress", dir, call, k);
    let last_part = std::fs::read_to_string(&prog).ok().and_then(|s| s.trim().parse().ok());
    Crash { child: k, last_part, how }
}

/// Run the whole check body in a forked child (which may use threads), with a
/// wall-clock cap. Returns Ok(exit code) or Err(description of abnormal end).
pub fn run_in_child<F: FnOnce() -> i32>(timeout: Duration, f: F) -> Result<i32, String> {
    let pid = unsafe { libc::fork() };
    if pid < 0 {
        return Err("fork failed".into());
    }
    if pid == 0 {
        let code = f();
        unsafe { libc::_exit(code) };
    }
    let start = Instant::now();
    loop {
        let mut status: libc::c_int = 0;
        let r = unsafe { libc::waitpid(pid, &mut status, libc::WNOHANG) };
        if r != 0 {
            if libc::WIFEXITED(status) {
                return Ok(libc::WEXITSTATUS(status));
            } else if libc::WIFSIGNALED(status) {
                return Err(format!("worker killed by signal {}", libc::WTERMSIG(status)));
            }
            return Err(format!("worker wait status {}", status));
        }
        if start.elapsed() > timeout {
            unsafe {
                libc::kill(pid, libc::SIGKILL);
                libc::waitpid(pid, &mut status, 0);
            }
            return Err(format!("worker exceeded wall-clock cap {:?}", timeout));
        }
        std::thread::sleep(Duration::from_millis(10));
    }
}

pub fn cleanup_tmp() {
    let d = format!(
        "{}/target/mc-tmp/{}",
        std::env::var("VERIF_DIR").unwrap_or_else(|_| "/verif".to_string()),
        std::process::id()
    );
    let _ = std::fs::remove_dir_all(d);
}
