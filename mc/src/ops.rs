//! Operation alphabet: every ParserListener method, resize, display, and
//! whole-stream feeds through the real Parser / ByteParser.

use std::cell::RefCell;
use std::panic::{catch_unwind, AssertUnwindSafe};
use std::sync::{Arc, Mutex};

use memterm::byte_parser::ByteParser;
use memterm::parser::Parser;
use memterm::parser_listener::ParserListener;
use memterm::screen::Screen;
use serde_json::{json, Value};

pub type P = Option<u32>;

#[derive(Clone, PartialEq, Eq, Hash, Debug)]
pub enum Op {
    Draw(String),
    Bell,
    Backspace,
    Tab,
    Linefeed,
    Index,
    ReverseIndex,
    CarriageReturn,
    ShiftOut,
    ShiftIn,
    SetTabStop,
    SaveCursor,
    RestoreCursor,
    Reset,
    AlignmentDisplay,
    DefineCharset(String, String),
    Ich(P),
    Cuu(P),
    Cud(P),
    Cuf(P),
    Cub(P),
    Cnl(P),
    Cpl(P),
    Cha(P),
    Cup(P, P),
    Ed(P),
    El(P),
    Il(P),
    Dl(P),
    Dch(P),
    Ech(P),
    Da(P),
    Vpa(P),
    Tbc(P),
    Sm(Vec<u32>, bool),
    Rm(Vec<u32>, bool),
    Sgr(Vec<u32>),
    SetTitle(String),
    SetIconName(String),
    SetMargins(P, P),
    /// resize(lines, columns)
    Resize(P, P),
    Display,
    /// the embedder clears the public `dirty` set (not a listener call)
    ClearDirty,
    /// chars through memterm::parser::Parser, one feed() per chunk; bool = utf8 mode
    Feed(Vec<String>, bool),
    /// bytes through memterm::byte_parser::ByteParser, one feed() per chunk; bool = utf8 mode
    FeedBytes(Vec<Vec<u8>>, bool),
}

impl Op {
    pub fn name(&self) -> &'static str {
        use Op::*;
        match self {
            Draw(_) => "draw",
            Bell => "bell",
            Backspace => "backspace",
            Tab => "tab",
            Linefeed => "linefeed",
            Index => "index",
            ReverseIndex => "reverse_index",
            CarriageReturn => "cariage_return",
            ShiftOut => "shift_out",
            ShiftIn => "shift_in",
            SetTabStop => "set_tab_stop",
            SaveCursor => "save_cursor",
            RestoreCursor => "restore_cursor",
            Reset => "reset",
            AlignmentDisplay => "alignment_display",
            DefineCharset(..) => "define_charset",
            Ich(_) => "insert_characters",
            Cuu(_) => "cursor_up",
            Cud(_) => "cursor_down",
            Cuf(_) => "cursor_forward",
            Cub(_) => "cursor_back",
            Cnl(_) => "cursor_down1",
            Cpl(_) => "cursor_up1",
            Cha(_) => "cursor_to_column",
            Cup(..) => "cursor_position",
            Ed(_) => "erase_in_display",
            El(_) => "erase_in_line",
            Il(_) => "insert_lines",
            Dl(_) => "delete_lines",
            Dch(_) => "delete_characters",
            Ech(_) => "erase_characters",
            Da(_) => "report_device_attributes",
            Vpa(_) => "cursor_to_line",
            Tbc(_) => "clear_tab_stop",
            Sm(..) => "set_mode",
            Rm(..) => "reset_mode",
            Sgr(_) => "select_graphic_rendition",
            SetTitle(_) => "set_title",
            SetIconName(_) => "set_icon_name",
            SetMargins(..) => "set_margins",
            Resize(..) => "resize",
            Display => "display",
            ClearDirty => "clear_dirty",
            Feed(..) => "feed",
            FeedBytes(..) => "feed_bytes",
        }
    }

    pub fn to_json(&self) -> Value {
        use Op::*;
        let n = self.name();
        match self {
            Draw(s) | SetTitle(s) | SetIconName(s) => json!({"op": n, "text": s, "escaped": esc(s)}),
            DefineCharset(a, b) => json!({"op": n, "code": a, "mode": b}),
            Ich(p) | Cuu(p) | Cud(p) | Cuf(p) | Cub(p) | Cnl(p) | Cpl(p) | Cha(p) | Ed(p) | El(p)
            | Il(p) | Dl(p) | Dch(p) | Ech(p) | Da(p) | Vpa(p) | Tbc(p) => json!({"op": n, "p": p}),
            Cup(a, b) | SetMargins(a, b) | Resize(a, b) => json!({"op": n, "a": a, "b": b}),
            Sm(v, p) | Rm(v, p) => json!({"op": n, "modes": v, "private": p}),
            Sgr(v) => json!({"op": n, "attrs": v}),
            Feed(chunks, utf8) => {
                json!({"op": n, "chunks": chunks, "utf8": utf8, "escaped": chunks.iter().map(|c| esc(c)).collect::<Vec<_>>()})
            }
            FeedBytes(chunks, utf8) => {
                json!({"op": n, "chunks": chunks, "utf8": utf8, "hex": chunks.iter().map(|c| hex(c)).collect::<Vec<_>>()})
            }
            _ => json!({"op": n}),
        }
    }

    pub fn from_json(v: &Value) -> Option<Op> {
        use Op::*;
        let n = v.get("op")?.as_str()?;
        let p = |k: &str| -> P { v.get(k).and_then(|x| x.as_u64()).map(|x| x as u32) };
        let s = |k: &str| -> String { v.get(k).and_then(|x| x.as_str()).unwrap_or("").to_string() };
        let vu = |k: &str| -> Vec<u32> {
            v.get(k)
                .and_then(|x| x.as_array())
                .map(|a| a.iter().filter_map(|e| e.as_u64()).map(|e| e as u32).collect())
                .unwrap_or_default()
        };
        Some(match n {
            "draw" => Draw(s("text")),
            "bell" => Bell,
            "backspace" => Backspace,
            "tab" => Tab,
            "linefeed" => Linefeed,
            "index" => Index,
            "reverse_index" => ReverseIndex,
            "cariage_return" => CarriageReturn,
            "shift_out" => ShiftOut,
            "shift_in" => ShiftIn,
            "set_tab_stop" => SetTabStop,
            "save_cursor" => SaveCursor,
            "restore_cursor" => RestoreCursor,
            "reset" => Reset,
            "alignment_display" => AlignmentDisplay,
            "define_charset" => DefineCharset(s("code"), s("mode")),
            "insert_characters" => Ich(p("p")),
            "cursor_up" => Cuu(p("p")),
            "cursor_down" => Cud(p("p")),
            "cursor_forward" => Cuf(p("p")),
            "cursor_back" => Cub(p("p")),
            "cursor_down1" => Cnl(p("p")),
            "cursor_up1" => Cpl(p("p")),
            "cursor_to_column" => Cha(p("p")),
            "cursor_position" => Cup(p("a"), p("b")),
            "erase_in_display" => Ed(p("p")),
            "erase_in_line" => El(p("p")),
            "insert_lines" => Il(p("p")),
            "delete_lines" => Dl(p("p")),
            "delete_characters" => Dch(p("p")),
            "erase_characters" => Ech(p("p")),
            "report_device_attributes" => Da(p("p")),
            "cursor_to_line" => Vpa(p("p")),
            "clear_tab_stop" => Tbc(p("p")),
            "set_mode" => Sm(vu("modes"), v.get("private")?.as_bool()?),
            "reset_mode" => Rm(vu("modes"), v.get("private")?.as_bool()?),
            "select_graphic_rendition" => Sgr(vu("attrs")),
            "set_title" => SetTitle(s("text")),
            "set_icon_name" => SetIconName(s("text")),
            "set_margins" => SetMargins(p("a"), p("b")),
            "resize" => Resize(p("a"), p("b")),
            "display" => Display,
            "clear_dirty" => ClearDirty,
            "feed" => Feed(
                v.get("chunks")?
                    .as_array()?
                    .iter()
                    .map(|c| c.as_str().unwrap_or("").to_string())
                    .collect(),
                v.get("utf8")?.as_bool()?,
            ),
            "feed_bytes" => FeedBytes(
                v.get("chunks")?
                    .as_array()?
                    .iter()
                    .map(|c| {
                        c.as_array()
                            .map(|a| a.iter().filter_map(|e| e.as_u64()).map(|e| e as u8).collect())
                            .unwrap_or_default()
                    })
                    .collect(),
                v.get("utf8")?.as_bool()?,
            ),
            _ => return None,
        })
    }

    /// short human form used in samples / signatures
    pub fn short(&self) -> String {
        use Op::*;
        fn ps(p: &P) -> String {
            match p {
                None => "-".into(),
                Some(v) => v.to_string(),
            }
        }
        match self {
            Draw(s) => format!("draw({})", esc(s)),
            SetTitle(s) => format!("set_title({})", esc(s)),
            SetIconName(s) => format!("set_icon_name({})", esc(s)),
            DefineCharset(a, b) => format!("define_charset({},{})", esc(a), esc(b)),
            Ich(p) | Cuu(p) | Cud(p) | Cuf(p) | Cub(p) | Cnl(p) | Cpl(p) | Cha(p) | Ed(p) | El(p)
            | Il(p) | Dl(p) | Dch(p) | Ech(p) | Da(p) | Vpa(p) | Tbc(p) => {
                format!("{}({})", self.name(), ps(p))
            }
            Cup(a, b) | SetMargins(a, b) | Resize(a, b) => {
                format!("{}({},{})", self.name(), ps(a), ps(b))
            }
            Sm(v, p) | Rm(v, p) => format!("{}({:?},{})", self.name(), v, if *p { "?" } else { "ansi" }),
            Sgr(v) => format!("sgr({:?})", v),
            Feed(c, u) => format!(
                "feed{}({})",
                if *u { "" } else { "8" },
                c.iter().map(|x| esc(x)).collect::<Vec<_>>().join("|")
            ),
            FeedBytes(c, u) => format!(
                "feed_bytes{}({})",
                if *u { "" } else { "8" },
                c.iter().map(|x| hex(x)).collect::<Vec<_>>().join("|")
            ),
            _ => self.name().to_string(),
        }
    }
}

pub fn esc(s: &str) -> String {
    let mut o = String::new();
    for c in s.chars() {
        if c == '\\' {
            o.push_str("\\\\");
        } else if (c as u32) < 0x20 || c as u32 == 0x7f || ((c as u32) >= 0x80 && (c as u32) < 0xa0) {
            o.push_str(&format!("\\x{:02x}", c as u32));
        } else if (c as u32) > 0x7e {
            o.push_str(&format!("\\u{{{:x}}}", c as u32));
        } else {
            o.push(c);
        }
    }
    o
}

pub fn hex(b: &[u8]) -> String {
    b.iter().map(|x| format!("{:02x}", x)).collect::<Vec<_>>().join(" ")
}

thread_local! {
    pub static LAST_PANIC: RefCell<String> = RefCell::new(String::new());
    pub static IN_SUBJECT: std::cell::Cell<bool> = std::cell::Cell::new(false);
}

/// Install a silent panic hook that records message + location per thread.
pub fn install_panic_hook() {
    std::panic::set_hook(Box::new(|info| {
        let msg = if let Some(s) = info.payload().downcast_ref::<&str>() {
            s.to_string()
        } else if let Some(s) = info.payload().downcast_ref::<String>() {
            s.clone()
        } else {
            "<non-string panic>".to_string()
        };
        let loc = info
            .location()
            .map(|l| format!("{}:{}", l.file().rsplit('/').next().unwrap_or(""), l.line()))
            .unwrap_or_default();
        if !IN_SUBJECT.with(|f| f.get()) {
            // a panic in the harness itself: must be loud (machinery error, never a verdict)
            eprintln!("MACHINERY PANIC (harness code): {} @ {}", msg, loc);
            return;
        }
        LAST_PANIC.with(|p| {
            // keep the FIRST panic of a case (a poisoned-mutex panic may follow)
            let mut p = p.borrow_mut();
            if p.is_empty() {
                *p = format!("{} @ {}", msg, loc);
            }
        });
    }));
}

pub fn take_panic() -> String {
    LAST_PANIC.with(|p| std::mem::take(&mut *p.borrow_mut()))
}

/// Dropping a `Parser` cancels its coroutine, and generator-0.7.5 does that by
/// swapping the process-global panic hook (take_hook / set_hook) around an
/// internal unwinding -- not thread-safe. All parser drops in a multi-threaded
/// harness process therefore go through this lock. (Parser-heavy engines use
/// single-threaded worker processes instead and never contend on it.)
pub static DROP_LOCK: Mutex<()> = Mutex::new(());

pub struct LockedDrop<T>(Option<T>);
impl<T> LockedDrop<T> {
    pub fn new(t: T) -> Self {
        LockedDrop(Some(t))
    }
    pub fn get(&mut self) -> &mut T {
        self.0.as_mut().unwrap()
    }
}
impl<T> Drop for LockedDrop<T> {
    fn drop(&mut self) {
        let _g = DROP_LOCK.lock().unwrap_or_else(|e| e.into_inner());
        self.0.take();
    }
}

fn payload_msg(p: &Box<dyn std::any::Any + Send>) -> String {
    if let Some(s) = p.downcast_ref::<&str>() {
        s.to_string()
    } else if let Some(s) = p.downcast_ref::<String>() {
        s.clone()
    } else {
        "<non-string panic>".to_string()
    }
}

/// Raw application of an operation (may unwind).
fn apply_raw(s: &mut Screen, op: &Op) -> Option<Vec<String>> {
    use Op::*;
    match op {
        Draw(t) => s.draw(t),
        Bell => s.bell(),
        Backspace => s.backspace(),
        Tab => s.tab(),
        Linefeed => s.linefeed(),
        Index => s.index(),
        ReverseIndex => s.reverse_index(),
        CarriageReturn => s.cariage_return(),
        ShiftOut => s.shift_out(),
        ShiftIn => s.shift_in(),
        SetTabStop => s.set_tab_stop(),
        SaveCursor => s.save_cursor(),
        RestoreCursor => s.restore_cursor(),
        Reset => s.reset(),
        AlignmentDisplay => s.alignment_display(),
        DefineCharset(c, m) => s.define_charset(c, m),
        Ich(p) => s.insert_characters(*p),
        Cuu(p) => s.cursor_up(*p),
        Cud(p) => s.cursor_down(*p),
        Cuf(p) => s.cursor_forward(*p),
        Cub(p) => s.cursor_back(*p),
        Cnl(p) => s.cursor_down1(*p),
        Cpl(p) => s.cursor_up1(*p),
        Cha(p) => s.cursor_to_column(*p),
        Cup(a, b) => s.cursor_position(*a, *b),
        Ed(p) => s.erase_in_display(*p, None),
        El(p) => s.erase_in_line(*p, None),
        Il(p) => s.insert_lines(*p),
        Dl(p) => s.delete_lines(*p),
        Dch(p) => s.delete_characters(*p),
        Ech(p) => s.erase_characters(*p),
        Da(p) => s.report_device_attributes(*p, None),
        Vpa(p) => s.cursor_to_line(*p),
        Tbc(p) => s.clear_tab_stop(*p),
        Sm(v, p) => s.set_mode(v, *p),
        Rm(v, p) => s.reset_mode(v, *p),
        Sgr(v) => s.select_graphic_rendition(v),
        SetTitle(t) => s.set_title(t),
        SetIconName(t) => s.set_icon_name(t),
        SetMargins(a, b) => s.set_margins(*a, *b),
        Resize(a, b) => s.resize(*a, *b),
        Display => return Some(s.display()),
        ClearDirty => s.dirty.clear(),
        Feed(chunks, utf8) => {
            let arc = Arc::new(Mutex::new(s.clone()));
            {
                let mut p = LockedDrop::new(Parser::new(arc.clone()));
                if !*utf8 {
                    p.get().set_use_utf8(false);
                }
                for c in chunks {
                    p.get().feed(c.clone());
                }
            }
            *s = arc.lock().unwrap().clone();
        }
        FeedBytes(chunks, utf8) => {
            let arc = Arc::new(Mutex::new(s.clone()));
            {
                let mut p = LockedDrop::new(ByteParser::new(arc.clone()));
                if !*utf8 {
                    p.get().select_other_charset("@");
                }
                for c in chunks {
                    p.get().feed(c);
                }
            }
            *s = arc.lock().unwrap().clone();
        }
    }
    None
}

/// Apply `op` to `s` under catch_unwind. Ok(display output if op is Display) or Err(panic message).
/// After Err the screen must be discarded.
pub fn apply(s: &mut Screen, op: &Op) -> Result<Option<Vec<String>>, String> {
    take_panic();
    IN_SUBJECT.with(|f| f.set(true));
    let r = catch_unwind(AssertUnwindSafe(|| apply_raw(s, op)));
    IN_SUBJECT.with(|f| f.set(false));
    match r {
        Ok(r) => Ok(r),
        Err(p) => {
            // message from the payload (deterministic); location from the hook when it ran
            let msg = payload_msg(&p);
            let hooked = take_panic();
            let loc = hooked.rsplit(" @ ").next().unwrap_or("").to_string();
            Err(if hooked.contains(" @ ") && hooked.starts_with(&msg) { format!("{} @ {}", msg, loc) } else { msg })
        }
    }
}

/// Build a screen from a script; Err((index, message)) if a step panics.
pub fn build(columns: u32, lines: u32, script: &[Op]) -> Result<Screen, (usize, String)> {
    IN_SUBJECT.with(|f| f.set(true));
    let r0 = catch_unwind(|| Screen::new(columns, lines));
    IN_SUBJECT.with(|f| f.set(false));
    let mut s = match r0 {
        Ok(s) => s,
        Err(_) => return Err((0, format!("Screen::new panicked: {}", take_panic()))),
    };
    for (i, op) in script.iter().enumerate() {
        if let Err(m) = apply(&mut s, op) {
            return Err((i, m));
        }
    }
    Ok(s)
}
