//! Per-property campaigns (DESIGN.md section 7).

use serde_json::json;

use crate::explore::{bfs, sweep, Base, Local, Trans};
use crate::judge::*;
use crate::ops::{Op, P};
use crate::report::Collector;
use crate::seeds::*;

pub struct Guard {
    pub failures: Vec<String>,
}

impl Guard {
    pub fn new() -> Guard {
        Guard { failures: vec![] }
    }
    pub fn need(&mut self, c: &Collector, key: &str) {
        if c.counter(key) == 0 {
            self.failures.push(format!("vacuity guard: counter '{}' is 0", key));
        }
    }
}

pub fn quick_geoms() -> Vec<(u32, u32)> {
    vec![(1, 1), (2, 1), (1, 2), (3, 2), (4, 3)]
}
pub fn thorough_geoms() -> Vec<(u32, u32)> {
    vec![(1, 1), (2, 1), (1, 2), (3, 2), (4, 3), (2, 2), (3, 3), (5, 4), (7, 3), (9, 2)]
}
pub fn geoms(c: &Collector) -> Vec<(u32, u32)> {
    if c.thorough() {
        thorough_geoms()
    } else {
        quick_geoms()
    }
}

fn modesets_for(c: u32, l: u32) -> Vec<u8> {
    if c * l <= 6 {
        all_modesets()
    } else {
        pairwise_modesets()
    }
}

/// Generate bases per geometry (mode sets depend on the geometry).
pub fn gen_bases(c: &Collector, spec: &Spec) -> Vec<Base> {
    let mut all = Vec::new();
    let mut failed = 0;
    for g in &spec.geoms {
        let mut s = spec.clone();
        s.geoms = vec![*g];
        if s.modesets.is_empty() {
            s.modesets = modesets_for(g.0, g.1);
        }
        let (b, bad) = generate(&s);
        failed += bad.len();
        if let Some(first) = bad.first() {
            c.note(format!(
                "{} seed scripts panicked on {}x{} (first: [{}] -> {})",
                bad.len(),
                g.0,
                g.1,
                first.2.iter().map(|o| o.short()).collect::<Vec<_>>().join(", "),
                first.3
            ));
        }
        all.extend(b);
    }
    c.count("seed_scripts_panicked", failed as u64);
    c.count("base_states", all.len() as u64);
    all
}

fn sample_bases(c: &Collector, bases: &[Base], ops: &dyn Fn(&Base) -> Vec<Op>) {
    let n = bases.len();
    if n == 0 {
        return;
    }
    for i in [0, n / 3, n / 2, n - 1] {
        let b = &bases[i];
        let o = ops(b);
        c.sample(json!({
            "geometry": format!("{}x{}", b.columns, b.lines),
            "base_script": b.script.iter().map(|o| o.short()).collect::<Vec<_>>(),
            "ops_from_this_state": o.len(),
            "first_ops": o.iter().take(6).map(|o| o.short()).collect::<Vec<_>>(),
            "last_op": o.last().map(|o| o.short()),
        }));
    }
}

fn csi(params: &str, f: char) -> Op {
    Op::Feed(vec![format!("\x1b[{}{}", params, f)], true)
}

/// For every single-chunk parser-path op add variants preceded by each poison sequence
/// (a sequence that ends without dispatch): state leaking out of it changes what the
/// op under test does. The model sees the whole string, so expectations stay exact.
static EXTRAS: std::sync::atomic::AtomicBool = std::sync::atomic::AtomicBool::new(true);

/// Parser-path extras (poison prefixes, zero padding, big numbers) multiply the number of
/// parser-path operations by about ten; the main sweeps over all base states run without
/// them and a second sweep over every k-th base state runs with them.
pub fn set_extras(on: bool) {
    EXTRAS.store(on, std::sync::atomic::Ordering::SeqCst);
}
pub fn extras() -> bool {
    EXTRAS.load(std::sync::atomic::Ordering::SeqCst)
}

/// sweep all bases without the parser-path extras, then every `k`-th base with them
pub fn sweep_with_extras<OF, J>(c: &Collector, bases: &[Base], k: usize, ops_for: OF, judge: J)
where
    OF: Fn(&Base) -> Vec<Op>,
    J: Fn(&Collector, &Trans, &mut Local),
{
    set_extras(false);
    sweep(c, bases, &ops_for, &judge);
    set_extras(true);
    let thin: Vec<Base> = bases.iter().step_by(k.max(1)).cloned().collect();
    c.count("bases_with_parser_extras", thin.len() as u64);
    sweep(c, &thin, &ops_for, &judge);
}

pub fn with_poison(ops: Vec<Op>) -> Vec<Op> {
    if !extras() {
        return ops;
    }
    let mut out = Vec::with_capacity(ops.len() * 3);
    for op in ops {
        if let Op::Feed(chunks, utf8) = &op {
            if chunks.len() == 1 {
                for p in crate::props3::poison_sequences().iter().take(5) {
                    out.push(Op::Feed(vec![format!("{}{}", p, chunks[0])], *utf8));
                }
                // the same sequence with every number zero-padded to 8 digits
                if let Some(padded) = zero_pad(&chunks[0]) {
                    out.push(Op::Feed(vec![padded], *utf8));
                }
                // the private marker is only meaningful for SM / RM: everywhere else it is ignored
                if let Some(rest) = chunks[0].strip_prefix("\x1b[") {
                    if !rest.contains('?') && !rest.ends_with('h') && !rest.ends_with('l') && !rest.contains('\x1b') {
                        out.push(Op::Feed(vec![format!("\x1b[?{}", rest)], *utf8));
                    }
                }
            }
        }
        out.push(op);
    }
    out
}

/// Base states on geometries that cross the 255/256 boundary in one dimension: light
/// fills, cursors / regions around the boundary. Used by the E2 checks for a depth-1 sweep
/// with the boundary-value parameter domain (pdom switches automatically).
pub fn large_bases(c: &Collector, fills: Vec<Fill>) -> Vec<Base> {
    let spec = Spec {
        geoms: vec![(260, 3), (3, 260)],
        fills,
        cursors: CursorSel::Boundary,
        regions: RegionSel::Some,
        modesets: vec![0, M_DECOM | M_IRM, M_DECAWM_OFF | M_LNM],
        renditions: vec![vec![]],
        stacks: vec![0],
        charsets: default_charsets(),
        hidden_cursor: false,
    };
    let mut b = gen_bases(c, &spec);
    // the same geometries with every other axis away from its default: a non-default
    // rendition, reverse video, the graphics set active in G1, a hidden cursor and a
    // non-empty save stack (size-gated code paths must not depend on defaults)
    let spec2 = Spec {
        modesets: vec![M_DECSCNM, M_DECSCNM | M_DECOM | M_IRM],
        renditions: vec![vec![1, 31, 44, 7]],
        stacks: vec![2],
        charsets: vec![(true, "B", "0")],
        hidden_cursor: true,
        ..spec.clone()
    };
    let b2 = gen_bases(c, &spec2);
    c.count("large_geometry_bases_nondefault_axes", b2.len() as u64);
    b.extend(b2);
    if !c.thorough() {
        // quick tier: every 5th of them (the thorough tier takes all)
        b = b.into_iter().step_by(5).collect();
    }
    c.count("large_geometry_bases", b.len() as u64);
    b
}

/// Decimal spellings around 2^8, 2^16, 2^31, 2^32 and 2^64 (all saturate at 9999; an
/// accumulator that wraps would see 0..3 instead).
pub fn big_numbers() -> Vec<String> {
    let mut v = Vec::new();
    if !extras() {
        return v;
    }
    for base in [256u128, 65536, 2147483648, 4294967296, 8589934592, 18446744073709551616, 36893488147419103232] {
        for d in [0u128, 1, 2, 3, 5, 25] {
            v.push(format!("{}", base + d));
        }
    }
    v
}

/// `ESC [ 5 ; 12 H` -> `ESC [ 00000005 ; 00000012 H` (None if the string has no number)
pub fn zero_pad(s: &str) -> Option<String> {
    if !s.starts_with("\x1b[") {
        return None;
    }
    let mut out = String::new();
    let mut run = String::new();
    let mut any = false;
    for ch in s.chars() {
        if ch.is_ascii_digit() {
            run.push(ch);
        } else {
            if !run.is_empty() {
                out.push_str(&format!("{:0>8}", run));
                run.clear();
                any = true;
            }
            out.push(ch);
        }
    }
    if !run.is_empty() {
        out.push_str(&format!("{:0>8}", run));
        any = true;
    }
    if any {
        Some(out)
    } else {
        None
    }
}

/// Long histories of ONE operation: apply `op` `n` times from `base`, refining every step
/// against the model (counters that wrap, caps, "every Nth time" maintenance).
pub fn repeat_op(c: &Collector, prop: &str, engine: &str, base: &Base, op: &Op, n: usize) {
    let mut s = base.screen.clone();
    let mut script = base.script.clone();
    let mut local = Local::default();
    for _ in 0..n {
        let pre = crate::snapshot::snap(&s);
        let outcome = crate::explore::run_op(&s, op);
        local.transitions += 1;
        local.count("repeated_steps");
        let t = Trans { columns: base.columns, lines: base.lines, script: &script, pre: &pre, pre_screen: &s, op, outcome: &outcome };
        let ok = refine_all(c, prop, engine, &t, &mut local);
        match outcome {
            Ok((s2, _, _)) if ok => s = s2,
            _ => break,
        }
        script.push(op.clone());
    }
    local.flush(c);
}

/// A cycle of operations repeated `n` times from one base state, every step judged against the
/// model (housekeeping that runs every k-th call, counters that wrap, growth that is never pruned).
pub fn repeat_cycle(c: &Collector, prop: &str, engine: &str, base: &Base, cycle: &[Op], n: usize) {
    let mut s = base.screen.clone();
    let mut script = base.script.clone();
    let mut local = Local::default();
    'outer: for _ in 0..n {
        for op in cycle {
            let pre = crate::snapshot::snap(&s);
            let outcome = crate::explore::run_op(&s, op);
            local.transitions += 1;
            local.count("repeated_steps");
            let t = Trans { columns: base.columns, lines: base.lines, script: &script, pre: &pre, pre_screen: &s, op, outcome: &outcome };
            let ok = refine_all(c, prop, engine, &t, &mut local);
            match outcome {
                Ok((s2, _, _)) if ok => s = s2,
                _ => break 'outer,
            }
            script.push(op.clone());
        }
    }
    local.flush(c);
}

/// Every Unicode scalar value from U+0100 up, drawn alone (planes 0-2 and 14; all 17 planes in the
/// thorough tier) and, for the BMP, between two ASCII letters: width tables, normalisation and
/// "fast paths" that classify characters by range show on code points no hand-picked text contains.
/// The work is split by giving every chunk of code points its own copy of each base state (the
/// copies differ by trailing BEL operations, which change nothing).
pub fn unicode_sweep(c: &Collector, prop: &'static str, engine: &'static str, scripts: Vec<Vec<Op>>, geom: (u32, u32)) {
    const CHUNKS: usize = 32;
    let all_planes = c.thorough();
    let mut cps: Vec<u32> = Vec::new();
    for cp in 0x100u32..=0x10ffff {
        if char::from_u32(cp).is_none() {
            continue;
        }
        let plane = cp >> 16;
        if all_planes || plane <= 2 || plane == 14 {
            cps.push(cp);
        }
    }
    let mut bases = Vec::new();
    for script in &scripts {
        let base_len = script.len();
        for k in 0..CHUNKS {
            let mut sc = script.clone();
            for _ in 0..k {
                sc.push(Op::Bell);
            }
            if let Ok(s) = crate::ops::build(geom.0, geom.1, &sc) {
                bases.push((base_len, Base { columns: geom.0, lines: geom.1, script: sc, screen: s }));
            }
        }
    }
    let lens: std::collections::HashMap<Vec<String>, usize> = scripts.iter().map(|s| (s.iter().map(|o| o.short()).collect::<Vec<_>>(), s.len())).collect();
    let _ = lens;
    let base_lens: Vec<usize> = scripts.iter().map(|s| s.len()).collect();
    let only: Vec<Base> = bases.into_iter().map(|(_, b)| b).collect();
    let n_cps = cps.len();
    sweep(
        c,
        &only,
        move |b| {
            // chunk = number of trailing BELs
            let k = b.script.iter().rev().take_while(|o| matches!(o, Op::Bell)).count();
            let _ = &base_lens;
            let mut v = Vec::with_capacity(2 * n_cps / CHUNKS + 2);
            for (i, cp) in cps.iter().enumerate() {
                if i % CHUNKS != k {
                    continue;
                }
                let ch = char::from_u32(*cp).unwrap();
                v.push(Op::Draw(ch.to_string()));
                if *cp <= 0xffff {
                    v.push(Op::Draw(format!("a{}b", ch)));
                }
            }
            v
        },
        move |c, t, local| {
            local.count("unicode_draws");
            refine_all(c, prop, engine, t, local);
        },
    );
    c.bound("unicode_sweep", json!(if all_planes { "every scalar value U+0100..=U+10FFFF alone; BMP also between two letters" } else { "every scalar value of planes 0, 1, 2 and 14 from U+0100 alone; BMP also between two letters" }));
}

/// Histories WITHOUT state merging (a tree): redundant internal state (a cached flag mirroring
/// a mode, a memoised table) that one path forgets to update is invisible to the state key, so
/// merging would hide it. `ops`: the operations that maintain / consult the state in question
/// (mode switches, DECSC / DECRC, reset, ...) plus a few operations owned by `prop`, which are
/// the only ones judged.
pub fn history_tree(c: &Collector, prop: &'static str, geom: (u32, u32), ops: Vec<Op>, depth: usize) {
    history_tree_j(c, prop, geom, ops, depth, &|_| false)
}

/// like `history_tree`, with additional operations judged under `prop` (e.g. draw for C20)
pub fn history_tree_j(c: &Collector, prop: &'static str, geom: (u32, u32), ops: Vec<Op>, depth: usize, also: &(dyn Fn(&Op) -> bool + Sync)) {
    let tseed = Spec {
        geoms: vec![geom],
        fills: vec![Fill::F0],
        cursors: CursorSel::Home,
        regions: RegionSel::NoRegion,
        modesets: vec![0],
        renditions: vec![vec![]],
        stacks: vec![0],
        charsets: default_charsets(),
        hidden_cursor: false,
    };
    let tseeds = gen_bases(c, &tseed);
    history_tree_from(c, prop, tseeds, ops, depth, also)
}

/// the tree grown from given base states (content already on the screen, cursor where it matters)
pub fn history_tree_from(c: &Collector, prop: &'static str, tseeds: Vec<Base>, ops: Vec<Op>, depth: usize, also: &(dyn Fn(&Op) -> bool + Sync)) {
    let geom = tseeds.first().map(|b| (b.columns, b.lines)).unwrap_or((0, 0));
    let st = crate::explore::bfs_nd(
        c,
        &tseeds,
        depth,
        8_000_000,
        |_| ops.clone(),
        |c, t, local| {
            if owner(t.op) == Some(prop) || also(t.op) {
                local.count("tree_judged");
                refine_all(c, prop, "E2.tree", t, local)
            } else {
                expand_ok(t)
            }
        },
        |_| true,
    );
    c.bound(&format!("tree_levels_{}x{}", geom.0, geom.1), json!(st.levels));
    c.bound("tree_depth", json!(depth));
    c.bound("tree_alphabet", json!(ops.iter().map(|o| o.short()).collect::<Vec<_>>()));
}

/// Histories through ONE parser: every word of 1..=depth pieces is fed as a single stream (chars and
/// bytes; once in one call, once piece by piece) to one parser on a fresh screen and judged against
/// the model. State the *parser* keeps between sequences (a memo of the last designator / title / mode
/// it passed on, a reused parameter buffer) is invisible to the per-operation trees on the Screen,
/// where every parser-path operation gets a parser of its own.
pub fn parser_words(c: &Collector, prop: &'static str, geom: (u32, u32), pieces: &[&str], depth: usize, utf8: bool) {
    let base = vec![Base { columns: geom.0, lines: geom.1, script: vec![], screen: memterm::screen::Screen::new(geom.0, geom.1) }];
    let enc = |s: &str| -> Vec<u8> {
        if utf8 {
            s.as_bytes().to_vec()
        } else {
            s.chars().map(|ch| ch as u32 as u8).collect()
        }
    };
    let mut words: Vec<Vec<usize>> = vec![vec![]];
    let mut all: Vec<Vec<usize>> = Vec::new();
    for _ in 0..depth {
        let mut next = Vec::with_capacity(words.len() * pieces.len());
        for w in &words {
            for i in 0..pieces.len() {
                let mut x = w.clone();
                x.push(i);
                next.push(x);
            }
        }
        all.extend(next.iter().cloned());
        words = next;
    }
    let pieces_owned: Vec<String> = pieces.iter().map(|s| s.to_string()).collect();
    let all2 = all;
    sweep(
        c,
        &base,
        move |_| {
            let mut v = Vec::with_capacity(all2.len() * 3);
            for w in &all2 {
                let whole: String = w.iter().map(|i| pieces_owned[*i].as_str()).collect();
                v.push(Op::Feed(vec![whole.clone()], utf8));
                v.push(Op::FeedBytes(vec![enc(&whole)], utf8));
                if w.len() > 1 {
                    v.push(Op::FeedBytes(w.iter().map(|i| enc(&pieces_owned[*i])).collect(), utf8));
                }
            }
            v
        },
        |c, t, local| {
            local.count("parser_words");
            refine_all(c, prop, "E1.parser-words", t, local);
        },
    );
    c.bound(&format!("parser_words_{}", if utf8 { "utf8" } else { "8bit" }), json!({"pieces": pieces.iter().map(|s| s.escape_default().to_string()).collect::<Vec<_>>(), "depth": depth}));
}

// =====================================================================  C05
pub fn c05_ops(b: &Base) -> Vec<Op> {
    let (c, l) = (b.columns, b.lines);
    let dom = pdom(c, l);
    let mut v = Vec::new();
    for p in &dom {
        v.push(Op::Cuu(*p));
        v.push(Op::Cud(*p));
        v.push(Op::Cuf(*p));
        v.push(Op::Cub(*p));
        v.push(Op::Cnl(*p));
        v.push(Op::Cpl(*p));
        v.push(Op::Cha(*p));
        v.push(Op::Vpa(*p));
    }
    for a in &dom {
        for bb in &dom {
            v.push(Op::Cup(*a, *bb));
        }
    }
    v.push(Op::Backspace);
    v.push(Op::CarriageReturn);
    v
}

pub fn c05_parser_ops(b: &Base) -> Vec<Op> {
    let (c, l) = (b.columns, b.lines);
    let mut v = Vec::new();
    let ps: Vec<String> = vec![
        "".into(),
        "0".into(),
        "1".into(),
        "2".into(),
        format!("{}", c.max(l) + 1),
        "9999".into(),
        "00002".into(),
        "0000000001".into(),
        "10000".into(),
        "12345678".into(),
    ];
    for f in ['A', 'B', 'C', 'D', 'E', 'F', 'G', 'a', 'd', 'e'] {
        for p in &ps {
            v.push(csi(p, f));
        }
    }
    let small = ["", "0", "1", "2", "3", "9999", "00002"];
    for f in ['H', 'f'] {
        for a in small {
            v.push(csi(a, f));
            for bb in small {
                v.push(csi(&format!("{};{}", a, bb), f));
            }
        }
    }
    v.push(Op::Feed(vec!["\x08".into()], true));
    v.push(Op::Feed(vec!["\r".into()], true));
    for h in big_numbers() {
        for f in ['A', 'B', 'C', 'D', 'G', 'd', 'H'] {
            v.push(csi(&h, f));
        }
    }
    // long parameter lists (only the first one or two count)
    for n in [16usize, 17, 18, 33, 100] {
        let zeros = vec!["0"; n - 2].join(";");
        for f in ['H', 'f'] {
            v.push(csi(&format!("2;2;{}", zeros), f));
        }
        for f in ['A', 'B', 'C', 'D', 'G', 'd'] {
            v.push(csi(&format!("2;{};0", zeros), f));
        }
    }
    with_poison(v)
}

pub fn c05(c: &Collector, g: &mut Guard) {
    let spec = Spec {
        geoms: geoms(c),
        fills: vec![Fill::F0, Fill::F1],
        cursors: CursorSel::All,
        regions: RegionSel::All,
        modesets: vec![],
        renditions: if c.thorough() { default_renditions() } else { vec![vec![]] },
        stacks: vec![0],
        charsets: default_charsets(),
        hidden_cursor: false,
    };
    let bases = gen_bases(c, &spec);
    sample_bases(c, &bases, &c05_ops);
    sweep(c, &bases, c05_ops, |c, t, local| {
        refine_all(c, "C05", "E2.depth1.api", t, local);
    });
    // parser path on the F0 states only (the grid is a frame condition here)
    let pbases: Vec<Base> =
        bases.iter().filter(|b| !b.script.iter().any(|o| matches!(o, Op::Draw(t) if t.len() > 1))).cloned().collect();
    c.count("parser_path_bases", pbases.len() as u64);
    sweep_with_extras(c, &pbases, 6, c05_parser_ops, |c, t, local| {
        local.count("parser_path_transitions");
        refine_all(c, "C05", "E2.depth1.parser", t, local);
    });
    let lb = large_bases(c, vec![Fill::F0]);
    sweep(c, &lb, c05_ops, |c, t, local| {
        local.count("large_geometry_transitions");
        refine_all(c, "C05", "E2.depth1.large", t, local);
    });
    // histories WITHOUT state merging (a tree, not a graph): redundant internal state (a cached
    // flag mirroring a mode, a memoised position) that one path forgets to update is invisible to
    // the state key, so merging would hide it. Save/restore, mode switches, margins, reset.
    let tdepth = if c.thorough() { 7 } else { 6 };
    let tseed = Spec {
        geoms: vec![(3, 4)],
        fills: vec![Fill::F0],
        cursors: CursorSel::Home,
        regions: RegionSel::NoRegion,
        modesets: vec![0],
        renditions: vec![vec![]],
        stacks: vec![0],
        charsets: default_charsets(),
        hidden_cursor: false,
    };
    let tseeds = gen_bases(c, &tseed);
    let st = crate::explore::bfs_nd(
        c,
        &tseeds,
        tdepth,
        6_000_000,
        |_| {
            vec![
                Op::Sm(vec![6], true),
                Op::Rm(vec![6], true),
                Op::SaveCursor,
                Op::RestoreCursor,
                Op::SetMargins(Some(2), Some(3)),
                Op::Cup(None, None),
                Op::Cup(Some(4), Some(2)),
                Op::Vpa(Some(1)),
                Op::Reset,
            ]
        },
        |c, t, local| {
            if owner(t.op) == Some("C05") {
                local.count("tree_judged");
                refine_all(c, "C05", "E2.tree", t, local)
            } else {
                expand_ok(t)
            }
        },
        |_| true,
    );
    c.bound("tree_levels_3x4", json!(st.levels));
    c.bound("tree_depth", json!(tdepth));
    if c.thorough() {
        // 80x24 corners
        let spec80 = Spec {
            geoms: vec![(80, 24)],
            fills: vec![Fill::F0],
            cursors: CursorSel::Corners,
            regions: RegionSel::Some,
            modesets: pairwise_modesets(),
            renditions: vec![vec![]],
            stacks: vec![0],
            charsets: default_charsets(),
            hidden_cursor: false,
        };
        let b80 = gen_bases(c, &spec80);
        sweep(
            c,
            &b80,
            |b| {
                let mut v = Vec::new();
                let dom: Vec<P> = vec![None, Some(0), Some(1), Some(2), Some(23), Some(24), Some(25), Some(79), Some(80), Some(81), Some(9999)];
                for p in &dom {
                    v.push(Op::Cuu(*p));
                    v.push(Op::Cud(*p));
                    v.push(Op::Cuf(*p));
                    v.push(Op::Cub(*p));
                    v.push(Op::Cnl(*p));
                    v.push(Op::Cpl(*p));
                    v.push(Op::Cha(*p));
                    v.push(Op::Vpa(*p));
                    for q in &dom {
                        v.push(Op::Cup(*p, *q));
                    }
                }
                let _ = b;
                v
            },
            |c, t, local| {
                refine_all(c, "C05", "E2.depth1.api.80x24", t, local);
            },
        );
    }
    c.bound("geometries", json!(spec.geoms));
    c.bound("parameter_domain", json!("{absent,0,1..max(C,L)+2,9999}, both parameters independently for CUP/HVP"));
    c.bound("depth", json!(1));
    // histories through one parser (a parser-side memo of margins / modes / the last position)
    parser_words(
        c,
        "C05",
        (3, 4),
        &["\x1b[2;3r", "\x1b[?6h", "\x1b[?6l", "\x1b7", "\x1b8", "\x1bc", "\x1b[H", "\x1b[2B", "\x1b[9;9H", "\x1b[A"],
        if c.thorough() { 5 } else { 4 },
        true,
    );
    g.need(c, "pre_pending_wrap");
    g.need(c, "pre_region");
    g.need(c, "model_changed_state");
    g.need(c, "parser_path_transitions");
    g.need(c, "tree_judged");
    g.need(c, "large_geometry_transitions");
}

// =====================================================================  C07
pub fn c07_ops(b: &Base) -> Vec<Op> {
    let mut v = Vec::new();
    for h in [None, Some(0), Some(1), Some(2), Some(3), Some(4), Some(5), Some(9999)] {
        v.push(Op::Ed(h));
        v.push(Op::El(h));
    }
    for p in pdom(b.columns, b.lines) {
        v.push(Op::Ech(p));
    }
    for h in ["", "0", "1", "2", "3", "4", "9999", "1;2"] {
        v.push(csi(h, 'J'));
        v.push(csi(h, 'K'));
        v.push(csi(h, 'X'));
    }
    for h in big_numbers() {
        v.push(csi(&h, 'J'));
        v.push(csi(&h, 'K'));
        v.push(csi(&h, 'X'));
    }
    with_poison(v)
}

pub fn c07(c: &Collector, g: &mut Guard) {
    let spec = Spec {
        geoms: geoms(c),
        fills: vec![Fill::F0, Fill::F1, Fill::F3, Fill::F7],
        cursors: CursorSel::All,
        regions: RegionSel::Some,
        modesets: vec![],
        renditions: default_renditions(),
        stacks: vec![0],
        charsets: default_charsets(),
        hidden_cursor: false,
    };
    let bases = gen_bases(c, &spec);
    sample_bases(c, &bases, &c07_ops);
    sweep_with_extras(c, &bases, 8, c07_ops, |c, t, local| {
        if refine_all(c, "C07", "E2.depth1", t, local) {
            then_grow(c, "C07", "E2.depth1.then-grow", t, local);
        }
    });
    // every selector value the parser can deliver, from a thin set of base states
    let thin: Vec<Base> = bases.iter().filter(|b| b.columns >= 3).step_by(if c.thorough() { 40 } else { 160 }).cloned().collect();
    c.count("all_selector_bases", thin.len() as u64);
    sweep(
        c,
        &thin,
        |_| {
            let mut v = Vec::with_capacity(20000);
            for h in 0..=9999u32 {
                v.push(Op::Ed(Some(h)));
                v.push(Op::El(Some(h)));
            }
            v
        },
        |c, t, local| {
            refine_all(c, "C07", "E4.all-selectors", t, local);
        },
    );
    let lb = large_bases(c, vec![Fill::F0, Fill::F1]);
    sweep(c, &lb, c07_ops, |c, t, local| {
        local.count("large_geometry_transitions");
        refine_all(c, "C07", "E2.depth1.large", t, local);
    });
    history_tree(
        c,
        "C07",
        (3, 2),
        vec![
            Op::Sm(vec![5], true),
            Op::Rm(vec![5], true),
            Op::Sgr(vec![27]),
            Op::Sgr(vec![44]),
            Op::SaveCursor,
            Op::RestoreCursor,
            Op::Reset,
            Op::El(Some(0)),
            Op::Ech(Some(1)),
            Op::Cup(Some(2), Some(2)),
        ],
        if c.thorough() { 6 } else { 5 },
    );
    // a second tree around the rendition: every site that changes it (SGR, DECRC, DECSCNM, reset)
    // between two erasures of whole rows / the whole screen (a cached blank row or cell keyed on the
    // rendition must be dropped by each of them)
    history_tree(
        c,
        "C07",
        (3, 2),
        vec![
            Op::Sgr(vec![44]),
            Op::Sgr(vec![0]),
            Op::SaveCursor,
            Op::RestoreCursor,
            Op::Ed(Some(2)),
            Op::Ed(Some(0)),
            Op::El(Some(2)),
            Op::Sm(vec![5], true),
            Op::Reset,
        ],
        if c.thorough() { 6 } else { 5 },
    );
    history_tree(
        c,
        "C07",
        (3, 2),
        vec![Op::Sgr(vec![44]), Op::Sgr(vec![0]), Op::SaveCursor, Op::RestoreCursor, Op::Ed(Some(2)), Op::El(Some(2))],
        if c.thorough() { 8 } else { 6 },
    );
    c.bound("geometries", json!(spec.geoms));
    c.bound("selectors", json!("{absent,0,1,2,3,4,5,9999}; ECH counts {absent,0,1..max+2,9999}"));
    g.need(c, "all_selector_bases");
    g.need(c, "large_geometry_transitions");
    g.need(c, "tree_judged");
    g.need(c, "then_grow");
    g.need(c, "pre_pending_wrap");
    g.need(c, "pre_region");
    g.need(c, "model_changed_state");
}

// =====================================================================  C13
pub fn c13_ops(b: &Base) -> Vec<Op> {
    let mut v = Vec::new();
    for p in pdom(b.columns, b.lines) {
        v.push(Op::Ich(p));
        v.push(Op::Dch(p));
    }
    for h in ["", "0", "1", "2", "9999"] {
        v.push(csi(h, '@'));
        v.push(csi(h, 'P'));
    }
    for h in big_numbers() {
        v.push(csi(&h, '@'));
        v.push(csi(&h, 'P'));
    }
    with_poison(v)
}

fn is_c13_judged(op: &Op) -> bool {
    matches!(op, Op::Ich(_) | Op::Dch(_))
}

pub fn c13(c: &Collector, g: &mut Guard) {
    let spec = Spec {
        geoms: geoms(c),
        fills: vec![Fill::F0, Fill::F1, Fill::F2, Fill::F3, Fill::F6, Fill::F7],
        cursors: CursorSel::All,
        regions: RegionSel::Some,
        modesets: vec![],
        renditions: default_renditions(),
        stacks: vec![0],
        charsets: default_charsets(),
        hidden_cursor: false,
    };
    let bases = gen_bases(c, &spec);
    sample_bases(c, &bases, &c13_ops);
    sweep_with_extras(c, &bases, 8, c13_ops, |c, t, local| {
        if refine_all(c, "C13", "E2.depth1", t, local) {
            then_grow(c, "C13", "E2.depth1.then-grow", t, local);
        }
    });
    let lb = large_bases(c, vec![Fill::F0, Fill::F1, Fill::F2, Fill::F8]);
    sweep(c, &lb, c13_ops, |c, t, local| {
        local.count("large_geometry_transitions");
        refine_all(c, "C13", "E2.depth1.large", t, local);
    });
    // edit on a wide row, then widen the screen: what crossed the edge must not come back
    let mut eb: Vec<Base> = Vec::new();
    for b in lb.iter().step_by(4) {
        for e in [Op::Ich(Some(2)), Op::Ich(Some(200)), Op::Dch(Some(1)), Op::Sm(vec![4], false)] {
            let mut s2 = b.screen.clone();
            let mut tail = vec![e.clone()];
            if matches!(e, Op::Sm(..)) {
                tail.push(Op::Draw("IJ".into()));
            }
            let mut ok = true;
            for op in &tail {
                ok &= crate::ops::apply(&mut s2, op).is_ok();
            }
            if ok {
                let mut script = b.script.clone();
                script.extend(tail);
                eb.push(Base { columns: b.columns, lines: b.lines, script, screen: s2 });
            }
        }
    }
    sweep(c, &eb, |b| vec![Op::Resize(None, Some(b.screen.columns + 5)), Op::Resize(Some(b.screen.lines + 1), Some(b.screen.columns + 1))], |c, t, local| {
        local.count("large_edit_then_grow");
        refine(c, "C13", "E2.large.resurface", t, &[crate::refscreen::Comp::Grid], local);
    });
    // long histories of one edit (every-Nth-time maintenance, counters): 300 repetitions
    let rspec = Spec {
        geoms: vec![(6, 2)],
        fills: vec![Fill::F1, Fill::F5],
        cursors: CursorSel::Home,
        regions: RegionSel::NoRegion,
        modesets: vec![0, M_DECSCNM, M_DECSCNM | M_IRM],
        renditions: default_renditions(),
        stacks: vec![0],
        charsets: default_charsets(),
        hidden_cursor: false,
    };
    for b in gen_bases(c, &rspec) {
        // blanks stored with the current rendition on the second row
        let mut b2 = b.clone();
        for op in [Op::Cup(Some(2), Some(1)), Op::El(Some(2)), Op::Cup(Some(1), Some(2))] {
            let _ = crate::ops::apply(&mut b2.screen, &op);
            b2.script.push(op);
        }
        for op in [Op::Ich(Some(1)), Op::Dch(Some(1)), Op::Draw("k".into())] {
            repeat_op(c, "C13", "E2.repeat", &b2, &op, 300);
        }
    }
    // depth-k BFS: all ICH/DCH/IRM-draw/EL/resize interleavings on the same row
    let depth = if c.thorough() { 5 } else { 4 };
    for (gc, gl) in [(5u32, 1u32), (3, 2)] {
        let sspec = Spec {
            geoms: vec![(gc, gl)],
            fills: vec![Fill::F0, Fill::F1],
            cursors: CursorSel::Corners,
            regions: RegionSel::NoRegion,
            modesets: vec![0],
            renditions: default_renditions(),
            stacks: vec![0],
            charsets: default_charsets(),
            hidden_cursor: false,
        };
        let seeds = gen_bases(c, &sspec);
        let st = bfs(
            c,
            &seeds,
            depth,
            3_000_000,
            |s| {
                let cc = s.columns;
                let mut v = vec![
                    Op::Ich(Some(1)),
                    Op::Ich(Some(2)),
                    Op::Dch(Some(1)),
                    Op::Dch(Some(2)),
                    Op::Draw("x".into()),
                    Op::Sm(vec![4], false),
                    Op::Rm(vec![4], false),
                    Op::El(Some(0)),
                    Op::El(Some(1)),
                    Op::Cup(None, Some(1)),
                    Op::Cup(None, Some(2)),
                    Op::Cup(None, Some(cc)),
                    Op::Display,
                    Op::Resize(None, Some(cc + 1)),
                ];
                if cc > 1 {
                    v.push(Op::Resize(None, Some(cc - 1)));
                }
                v
            },
            |c, t, local| {
                // every transition is judged against the model (the hidden residue left by
                // one op shows as a mismatch on the next); only ICH/DCH verdicts are C13's
                if is_c13_judged(t.op) {
                    local.count("bfs_judged");
                    refine_all(c, "C13", "E2.bfs", t, local)
                } else if matches!(t.op, Op::Resize(..)) && t.script.iter().any(|o| matches!(o, Op::Ich(_) | Op::Dch(_) | Op::Draw(_))) {
                    // "discarded characters never reappear": anything an earlier edit parked
                    // outside the row shows up as a grid mismatch when the screen grows
                    local.count("bfs_resize_after_edit");
                    refine(c, "C13", "E2.bfs.resurface", t, &[crate::refscreen::Comp::Grid], local) && expand_ok(t)
                } else {
                    expand_ok(t)
                }
            },
        );
        c.bound(&format!("bfs_levels_{}x{}", gc, gl), json!(st.levels));
    }
    history_tree(
        c,
        "C13",
        (3, 2),
        vec![
            Op::Sm(vec![5], true),
            Op::Rm(vec![5], true),
            Op::Draw("a".into()),
            Op::SaveCursor,
            Op::RestoreCursor,
            Op::Reset,
            Op::Ich(Some(1)),
            Op::Dch(Some(1)),
            Op::Cup(Some(1), Some(2)),
        ],
        if c.thorough() { 7 } else { 6 },
    );
    c.bound("geometries", json!(spec.geoms));
    c.bound("bfs_depth", json!(depth));
    g.need(c, "large_geometry_transitions");
    g.need(c, "tree_judged");
    g.need(c, "then_grow");
    g.need(c, "pre_pending_wrap");
    g.need(c, "model_changed_state");
    g.need(c, "bfs_judged");
    g.need(c, "repeated_steps");
    g.need(c, "large_edit_then_grow");
}

// =====================================================================  C06
pub fn c06_ops(b: &Base) -> Vec<Op> {
    let (c, l) = (b.columns, b.lines);
    let mut v = vec![
        Op::Index,
        Op::Linefeed,
        Op::ReverseIndex,
        Op::Feed(vec!["\x1bE".into()], true),
        Op::Feed(vec!["\x1bD".into()], true),
        Op::Feed(vec!["\x1bM".into()], true),
        Op::Feed(vec!["\x0b".into()], true),
        Op::Feed(vec!["\x0c".into()], true),
        Op::Feed(vec!["\n".into()], true),
    ];
    let dom: Vec<P> = if l <= 24 {
        let mut d = vec![None, Some(0)];
        for i in 1..=(l + 1) {
            d.push(Some(i));
        }
        d.push(Some(9999));
        d
    } else {
        pdom(1, l)
    };
    for p in &dom {
        v.push(Op::Il(*p));
        v.push(Op::Dl(*p));
    }
    for a in &dom {
        for bb in &dom {
            v.push(Op::SetMargins(*a, *bb));
        }
    }
    for h in ["", "0", "1", "2", "9999"] {
        v.push(csi(h, 'L'));
        v.push(csi(h, 'M'));
    }
    for h in ["", "0", "1;2", "2;3", "2", ";2", "0;0", "3;1", "1;9999"] {
        v.push(csi(h, 'r'));
    }
    for h in big_numbers().iter().step_by(3) {
        v.push(csi(h, 'L'));
        v.push(csi(h, 'M'));
        v.push(csi(&format!("{};{}", h, h), 'r'));
    }
    let _ = c;
    with_poison(v)
}

pub fn c06(c: &Collector, g: &mut Guard) {
    let gs: Vec<(u32, u32)> = if c.thorough() {
        vec![(1, 1), (1, 2), (2, 2), (3, 2), (2, 3), (4, 3), (2, 4), (3, 5), (1, 5), (5, 4)]
    } else {
        vec![(1, 1), (1, 2), (3, 2), (2, 3), (4, 3), (2, 4)]
    };
    let spec = Spec {
        geoms: gs.clone(),
        fills: vec![Fill::F0, Fill::F1, Fill::F2, Fill::F3, Fill::F6],
        cursors: CursorSel::All,
        regions: RegionSel::All,
        modesets: vec![],
        renditions: default_renditions(),
        stacks: vec![0],
        charsets: default_charsets(),
        hidden_cursor: false,
    };
    let bases = gen_bases(c, &spec);
    sample_bases(c, &bases, &c06_ops);
    sweep_with_extras(c, &bases, 8, c06_ops, |c, t, local| {
        if refine_all(c, "C06", "E2.depth1", t, local) {
            then_grow(c, "C06", "E2.depth1.then-grow", t, local);
        }
    });
    let lb = large_bases(c, vec![Fill::F0, Fill::F2, Fill::F5]);
    sweep(c, &lb, c06_ops, |c, t, local| {
        local.count("large_geometry_transitions");
        refine_all(c, "C06", "E2.depth1.large", t, local);
    });
    // autowrap at the bottom margin (draw at the pending-wrap column)
    let wbases: Vec<Base> = bases.iter().filter(|b| b.screen.cursor.x == b.columns).cloned().collect();
    c.count("pending_wrap_bases", wbases.len() as u64);
    sweep(c, &wbases, |_| vec![Op::Draw("Q".into()), Op::Draw("\u{200d}".into()), Op::Draw("\u{1161}".into()), Op::Draw("\u{308}".into()), Op::Draw("\u{30a2}".into()), Op::Feed(vec!["\u{200b}".into()], true)], |c, t, local| {
        refine_all(c, "C06", "E2.depth1.autowrap", t, local);
    });
    // BFS: sequences of scroll operations over sparse and written rows
    let depth = if c.thorough() { 4 } else { 3 };
    let bgeoms: Vec<(u32, u32)> = if c.thorough() { vec![(2, 3), (2, 4), (3, 5)] } else { vec![(2, 3), (2, 4)] };
    for (gc, gl) in bgeoms {
        let sspec = Spec {
            geoms: vec![(gc, gl)],
            fills: vec![Fill::F0, Fill::F1, Fill::F2],
            cursors: CursorSel::Home,
            regions: RegionSel::NoRegion,
            modesets: vec![0],
            renditions: vec![vec![], vec![1, 31, 44, 7]],
            stacks: vec![0],
            charsets: default_charsets(),
            hidden_cursor: false,
        };
        let seeds = gen_bases(c, &sspec);
        let st = bfs(
            c,
            &seeds,
            depth,
            3_000_000,
            |s| {
                let l = s.lines;
                let mut v = vec![
                    Op::Index,
                    Op::ReverseIndex,
                    Op::Il(Some(1)),
                    Op::Dl(Some(1)),
                    Op::Dl(Some(2)),
                    Op::Draw("m".into()),
                    Op::Display,
                    Op::SetMargins(Some(1), Some(l - 1)),
                    Op::SetMargins(Some(2), Some(l)),
                    Op::SetMargins(None, None),
                ];
                for y in 1..=l {
                    v.push(Op::Cup(Some(y), None));
                }
                v
            },
            |c, t, local| {
                if owner(t.op) == Some("C06") {
                    local.count("bfs_judged");
                    refine_all(c, "C06", "E2.bfs", t, local)
                } else {
                    expand_ok(t)
                }
            },
        );
        c.bound(&format!("bfs_levels_{}x{}", gc, gl), json!(st.levels));
    }
    history_tree(
        c,
        "C06",
        (2, 3),
        vec![
            Op::Sm(vec![20], false),
            Op::Rm(vec![20], false),
            Op::SetMargins(Some(1), Some(2)),
            Op::SetMargins(None, None),
            Op::SaveCursor,
            Op::RestoreCursor,
            Op::Reset,
            Op::Cup(Some(3), Some(2)),
            Op::Linefeed,
            Op::Draw("k".into()),
        ],
        if c.thorough() { 6 } else { 5 },
    );
    // long runs of scrolls (housekeeping every k-th scroll, wrapping counters): 300 rounds of each
    // cycle on a 3x4 screen whose rows outside and inside the region hold text, coloured blanks and
    // attribute-only blanks; every step is judged
    for region in [None, Some((2u32, 3u32)), Some((1, 3))] {
        let mut script = vec![
            Op::Draw("ab".into()),
            Op::Cup(Some(2), Some(1)),
            Op::Sgr(vec![44]),
            Op::Draw("  ".into()),
            Op::Cup(Some(3), Some(1)),
            Op::El(Some(2)),
            Op::Cup(Some(4), Some(1)),
            Op::Sgr(vec![0, 7]),
            Op::Draw(" z".into()),
            Op::Sgr(vec![0, 41]),
        ];
        if let Some((t, b)) = region {
            script.push(Op::SetMargins(Some(t), Some(b)));
        }
        let (top, bottom) = region.unwrap_or((1, 4));
        if let Ok(scr) = crate::ops::build(3, 4, &script) {
            let base = Base { columns: 3, lines: 4, script: script.clone(), screen: scr };
            let cycles: Vec<Vec<Op>> = vec![
                vec![Op::Cup(Some(bottom), Some(1)), Op::Index],
                vec![Op::Cup(Some(top), Some(1)), Op::ReverseIndex],
                vec![Op::Cup(Some(bottom), Some(1)), Op::Linefeed, Op::Cup(Some(top), Some(2)), Op::ReverseIndex],
                vec![Op::Cup(Some(bottom), Some(1)), Op::Sgr(vec![44]), Op::Draw(" ".into()), Op::Sgr(vec![0]), Op::Index],
                vec![Op::Cup(Some(bottom), Some(3)), Op::Draw("wx".into())],
                vec![Op::Cup(Some(top), Some(1)), Op::Il(Some(1)), Op::Sgr(vec![42]), Op::El(Some(2)), Op::Dl(Some(1))],
                vec![Op::Cup(Some(bottom), Some(1)), Op::Feed(vec!["\x1b[43m \n".into()], true), Op::Feed(vec!["\x1bM\x1bD".into()], true)],
            ];
            for cy in &cycles {
                repeat_cycle(c, "C06", "E2.long-scroll", &base, cy, 300);
            }
        }
    }
    c.bound("long_scroll_rounds", json!(300));
    c.bound("geometries", json!(gs));
    c.bound("bfs_depth", json!(depth));
    // histories through one parser
    parser_words(
        c,
        "C06",
        (2, 3),
        &["\x1b[1;2r", "\x1b[r", "\x1b[?6h", "\x1b7", "\x1b8", "\x1bc", "\n", "\x1b[3;1H", "k", "\x1bM"],
        if c.thorough() { 5 } else { 4 },
        true,
    );
    g.need(c, "tree_judged");
    g.need(c, "repeated_steps");
    g.need(c, "then_grow");
    g.need(c, "large_geometry_transitions");
    g.need(c, "model_scrolled");
    g.need(c, "pre_region");
    g.need(c, "bfs_judged");
    g.need(c, "pending_wrap_bases");
}

// =====================================================================  C04
pub fn c04_texts(c: u32) -> Vec<String> {
    let mut v: Vec<String> = vec![
        "a".into(),
        "ab".into(),
        "\u{30a2}".into(),
        "a\u{30a2}".into(),
        "\u{308}".into(),
        "a\u{308}".into(),
        "\u{200b}".into(),
        "a\u{0}b".into(),
        "\u{7f}".into(),
        "\u{100}\u{2500}".into(),
        "\u{e9}".into(),
        "`q".into(),
        " ".into(),
        "a b".into(),
        "\u{a0}~".into(),
        // zero-width characters of several kinds: marks with combining class 0 (variation
        // selector, enclosing mark, Thai / Devanagari vowel signs), joiners and conjoining jamo
        "a\u{fe0f}".into(),
        "a\u{20dd}b".into(),
        "\u{e01}\u{e31}".into(),
        "\u{915}\u{941}".into(),
        "\u{200d}".into(),
        "a\u{200c}b".into(),
        "\u{1100}\u{1161}".into(),
        "\u{2060}\u{feff}".into(),
        "\u{1f600}\u{e0100}".into(),
    ];
    // many marks on one cell (cell-size caps, per-cell counters)
    v.push(format!("x{}", "\u{308}".repeat(40)));
    v.push(format!("\u{30a2}{}", "\u{fe0f}".repeat(30)));
    if c >= 24 {
        // long runs of plain text in ONE call (bulk paths)
        v.push("0123456789ABCDEFGHIJ".into());
        v.push("The quick brown fox jumps over the lazy dog 0123456789 times".chars().take((c - 2) as usize).collect());
    }
    let mut long = String::new();
    for i in 0..(c + 1) {
        long.push(marker(30 + i as usize));
    }
    v.push(long);
    v
}

pub fn c04_ops(b: &Base) -> Vec<Op> {
    c04_texts(b.columns).into_iter().map(Op::Draw).collect()
}

pub fn c04(c: &Collector, g: &mut Guard) {
    let spec = Spec {
        geoms: geoms(c),
        fills: vec![Fill::F0, Fill::F1, Fill::F2, Fill::F3, Fill::F4, Fill::F7],
        cursors: CursorSel::All,
        regions: RegionSel::Some,
        modesets: vec![],
        renditions: default_renditions(),
        stacks: vec![0],
        charsets: vec![(false, "B", "0"), (true, "B", "0"), (false, "U", "0")],
        hidden_cursor: false,
    };
    let bases = gen_bases(c, &spec);
    sample_bases(c, &bases, &c04_ops);
    sweep(c, &bases, c04_ops, |c, t, local| {
        if refine_all(c, "C04", "E2.depth1", t, local) {
            then_grow(c, "C04", "E2.depth1.then-grow", t, local);
        }
    });
    let lb = large_bases(c, vec![Fill::F0, Fill::F1, Fill::F8]);
    sweep(c, &lb, c04_ops, |c, t, local| {
        local.count("large_geometry_transitions");
        refine_all(c, "C04", "E2.depth1.large", t, local);
    });
    unicode_sweep(
        c,
        "C04",
        "E2.unicode",
        vec![vec![Op::Draw("k".into())], vec![Op::Draw("kl".into()), Op::Sm(vec![4], false), Op::Sgr(vec![1, 32]), Op::Cup(Some(1), Some(2))]],
        (6, 2),
    );
    let depth = if c.thorough() { 4 } else { 3 };
    let bgeoms: Vec<(u32, u32)> = if c.thorough() { vec![(3, 2), (2, 2), (4, 2)] } else { vec![(3, 2)] };
    for (gc, gl) in bgeoms {
        let sspec = Spec {
            geoms: vec![(gc, gl)],
            fills: vec![Fill::F0, Fill::F1],
            cursors: CursorSel::Home,
            regions: RegionSel::NoRegion,
            modesets: vec![0],
            renditions: vec![vec![]],
            stacks: vec![0],
            charsets: default_charsets(),
            hidden_cursor: false,
        };
        let seeds = gen_bases(c, &sspec);
        let st = bfs(
            c,
            &seeds,
            depth,
            3_000_000,
            |s| {
                let (cc, l) = (s.columns, s.lines);
                vec![
                    Op::Draw("a".into()),
                    Op::Draw("\u{30a2}".into()),
                    Op::Draw("\u{308}".into()),
                    Op::CarriageReturn,
                    Op::Linefeed,
                    Op::Backspace,
                    Op::Cup(None, None),
                    Op::Cup(Some(l), Some(cc)),
                    Op::Cup(Some(1), Some(cc)),
                    Op::Sm(vec![4], false),
                    Op::Rm(vec![4], false),
                    Op::Sm(vec![7], true),
                    Op::Rm(vec![7], true),
                    Op::Display,
                    Op::Resize(None, Some(cc + 1)),
                    Op::Resize(Some(l + 1), None),
                ]
            },
            |c, t, local| {
                if matches!(t.op, Op::Draw(_)) {
                    local.count("bfs_judged");
                    refine_all(c, "C04", "E2.bfs", t, local)
                } else if matches!(t.op, Op::Resize(..)) && t.script.iter().any(|o| matches!(o, Op::Draw(_))) {
                    // "what crosses the right edge is lost": it must not come back when the screen grows
                    local.count("bfs_resize_after_draw");
                    refine(c, "C04", "E2.bfs.resurface", t, &[crate::refscreen::Comp::Grid], local) && expand_ok(t)
                } else {
                    expand_ok(t)
                }
            },
        );
        c.bound(&format!("bfs_levels_{}x{}", gc, gl), json!(st.levels));
    }
    history_tree(
        c,
        "C04",
        (3, 2),
        vec![
            Op::Sm(vec![4], false),
            Op::Rm(vec![4], false),
            Op::Rm(vec![7], true),
            Op::Sm(vec![7], true),
            Op::SaveCursor,
            Op::RestoreCursor,
            Op::Reset,
            Op::Cup(Some(1), Some(3)),
            Op::Draw("ab".into()),
        ],
        if c.thorough() { 7 } else { 6 },
    );
    c.bound("geometries", json!(spec.geoms));
    c.bound("bfs_depth", json!(depth));
    c.bound("texts", json!(c04_texts(4).iter().map(|t| crate::ops::esc(t)).collect::<Vec<_>>()));
    g.need(c, "tree_judged");
    g.need(c, "unicode_draws");
    g.need(c, "then_grow");
    g.need(c, "large_geometry_transitions");
    g.need(c, "model_wrapped");
    g.need(c, "model_scrolled");
    g.need(c, "pre_pending_wrap");
    g.need(c, "bfs_judged");
}

#[allow(dead_code)]
pub fn unused(_: &Trans, _: &mut Local) {}
