//! Reference streaming decoder: the standard library's lossy UTF-8 decoding of
//! the whole concatenated stream (maximal-subpart rule), or 1:1 in 8-bit mode.

pub fn decode(bytes: &[u8], utf8: bool) -> String {
    if utf8 {
        String::from_utf8_lossy(bytes).into_owned()
    } else {
        bytes.iter().map(|b| *b as char).collect()
    }
}

/// Length of the incomplete-but-still-valid trailing sequence of `bytes`
/// (0 if the stream ends on a character boundary or the tail is already invalid).
pub fn incomplete_tail(bytes: &[u8]) -> usize {
    let n = bytes.len();
    for k in 1..=3.min(n) {
        let tail = &bytes[n - k..];
        // tail must start with a lead byte and be a strict prefix of a valid sequence
        match std::str::from_utf8(tail) {
            Ok(_) => {
                if k == 1 {
                    return 0;
                }
                continue;
            }
            Err(e) => {
                if e.valid_up_to() == 0 && e.error_len().is_none() {
                    // whole tail is an incomplete sequence; make sure the byte before does not extend it
                    return k;
                }
            }
        }
    }
    0
}

#[cfg(test)]
mod t {
    use super::*;
    #[test]
    fn tails() {
        assert_eq!(incomplete_tail(b"abc"), 0);
        assert_eq!(incomplete_tail(&[0x61, 0xe2]), 1);
        assert_eq!(incomplete_tail(&[0x61, 0xe2, 0x9e]), 2);
        assert_eq!(incomplete_tail(&[0x61, 0xe2, 0x9e, 0x9c]), 0);
        assert_eq!(incomplete_tail(&[0xf0, 0x9f, 0x98]), 3);
        assert_eq!(incomplete_tail(&[0x80]), 0);
        assert_eq!(incomplete_tail(&[0xe0, 0x80]), 0);
        assert_eq!(incomplete_tail(&[0xc0]), 0);
    }
}
