//! Violation collection, known-findings matching, replay files, evidence.

use std::collections::{BTreeMap, HashSet};
use std::sync::atomic::{AtomicU64, Ordering};
use std::sync::Mutex;
use std::time::Instant;

use serde_json::{json, Value};

use crate::ops::Op;

#[derive(Clone, Debug)]
pub struct Violation {
    pub property: String,
    /// engine / campaign name
    pub engine: String,
    /// stable signature: what fails (operation + outcome class + pre-state class)
    pub sig: String,
    pub columns: u32,
    pub lines: u32,
    /// API script reaching the pre-state from Screen::new(columns, lines)
    pub script: Vec<Op>,
    /// the operation under test (None for state invariants on the seed itself)
    pub op: Option<Op>,
    pub detail: String,
    /// optional extra JSON (expected / observed)
    pub extra: Value,
}

pub struct Collector {
    pub property: String,
    pub tier: String,
    pub start: Instant,
    viol: Mutex<BTreeMap<String, (Violation, u64)>>,
    pub transitions: AtomicU64,
    pub states: AtomicU64,
    pub evaluations: AtomicU64,
    counters: Mutex<BTreeMap<String, u64>>,
    samples: Mutex<Vec<Value>>,
    outcomes: Mutex<HashSet<u64>>,
    caps: Mutex<Vec<String>>,
    crashes: Mutex<Vec<String>>,
    notes: Mutex<Vec<String>>,
    bounds: Mutex<BTreeMap<String, Value>>,
}

impl Collector {
    pub fn new(property: &str, tier: &str) -> Collector {
        Collector {
            property: property.to_string(),
            tier: tier.to_string(),
            start: Instant::now(),
            viol: Mutex::new(BTreeMap::new()),
            transitions: AtomicU64::new(0),
            states: AtomicU64::new(0),
            evaluations: AtomicU64::new(0),
            counters: Mutex::new(BTreeMap::new()),
            samples: Mutex::new(Vec::new()),
            outcomes: Mutex::new(HashSet::new()),
            caps: Mutex::new(Vec::new()),
            crashes: Mutex::new(Vec::new()),
            notes: Mutex::new(Vec::new()),
            bounds: Mutex::new(BTreeMap::new()),
        }
    }

    pub fn thorough(&self) -> bool {
        self.tier == "thorough"
    }

    /// Record a violation (grouped by signature; first example kept, ordered so
    /// that the result does not depend on thread scheduling: smallest script wins).
    pub fn violation(&self, v: Violation) {
        let mut m = self.viol.lock().unwrap();
        match m.get_mut(&v.sig) {
            Some((old, n)) => {
                *n += 1;
                // (formatting both scripts on every duplicate serialised all threads on badly broken trees)
                if v.script.len() < old.script.len()
                    || (v.script.len() == old.script.len() && format!("{:?}{:?}", v.script, v.op) < format!("{:?}{:?}", old.script, old.op))
                {
                    *old = v;
                }
            }
            None => {
                m.insert(v.sig.clone(), (v, 1));
            }
        }
    }

    pub fn add_transitions(&self, n: u64) {
        self.transitions.fetch_add(n, Ordering::Relaxed);
    }
    pub fn add_states(&self, n: u64) {
        self.states.fetch_add(n, Ordering::Relaxed);
    }
    pub fn count(&self, key: &str, n: u64) {
        if n == 0 {
            return;
        }
        *self.counters.lock().unwrap().entry(key.to_string()).or_insert(0) += n;
    }
    pub fn merge_counts(&self, c: &BTreeMap<&'static str, u64>) {
        let mut m = self.counters.lock().unwrap();
        for (k, v) in c {
            *m.entry(k.to_string()).or_insert(0) += v;
        }
    }
    pub fn counter(&self, key: &str) -> u64 {
        *self.counters.lock().unwrap().get(key).unwrap_or(&0)
    }
    pub fn sample(&self, v: Value) {
        let mut s = self.samples.lock().unwrap();
        if s.len() < 24 {
            s.push(v);
        }
    }
    pub fn outcomes(&self, keys: &HashSet<u64>) {
        let mut o = self.outcomes.lock().unwrap();
        if o.len() < 20_000_000 {
            o.extend(keys.iter());
        }
    }
    /// an abnormal worker end: machinery error unless the owning check turns it into a verdict
    pub fn crash(&self, what: String) {
        self.crashes.lock().unwrap().push(what);
    }
    pub fn crashes(&self) -> Vec<String> {
        self.crashes.lock().unwrap().clone()
    }
    pub fn cap(&self, what: String) {
        self.caps.lock().unwrap().push(what);
    }
    pub fn note(&self, what: String) {
        self.notes.lock().unwrap().push(what);
    }
    pub fn bound(&self, k: &str, v: Value) {
        self.bounds.lock().unwrap().insert(k.to_string(), v);
    }
    pub fn signatures(&self) -> Vec<String> {
        self.viol.lock().unwrap().keys().cloned().collect()
    }
    pub fn details(&self) -> Vec<(String, String)> {
        self.viol.lock().unwrap().iter().map(|(k, (v, _))| (k.clone(), v.detail.clone())).collect()
    }
    pub fn n_violation_sigs(&self) -> usize {
        self.viol.lock().unwrap().len()
    }

    /// Serialise everything (for hand-over from a worker process).
    pub fn to_json(&self) -> Value {
        let viol: Vec<Value> = self
            .viol
            .lock()
            .unwrap()
            .values()
            .map(|(v, n)| {
                json!({
                    "property": v.property, "engine": v.engine, "sig": v.sig, "columns": v.columns, "lines": v.lines,
                    "script": v.script.iter().map(|o| o.to_json()).collect::<Vec<_>>(),
                    "op": v.op.as_ref().map(|o| o.to_json()),
                    "detail": v.detail, "extra": v.extra, "n": n,
                })
            })
            .collect();
        let outcomes: Vec<u64> = self.outcomes.lock().unwrap().iter().cloned().collect();
        json!({
            "viol": viol,
            "transitions": self.transitions.load(Ordering::Relaxed),
            "states": self.states.load(Ordering::Relaxed),
            "counters": *self.counters.lock().unwrap(),
            "samples": *self.samples.lock().unwrap(),
            "outcomes": outcomes,
            "caps": *self.caps.lock().unwrap(),
            "notes": *self.notes.lock().unwrap(),
            "bounds": *self.bounds.lock().unwrap(),
        })
    }

    pub fn merge_json(&self, v: &Value) {
        if let Some(a) = v.get("viol").and_then(|x| x.as_array()) {
            for e in a {
                let script: Vec<Op> = e["script"].as_array().map(|a| a.iter().filter_map(Op::from_json).collect()).unwrap_or_default();
                let n = e["n"].as_u64().unwrap_or(1);
                let viol = Violation {
                    property: e["property"].as_str().unwrap_or("").to_string(),
                    engine: e["engine"].as_str().unwrap_or("").to_string(),
                    sig: e["sig"].as_str().unwrap_or("").to_string(),
                    columns: e["columns"].as_u64().unwrap_or(0) as u32,
                    lines: e["lines"].as_u64().unwrap_or(0) as u32,
                    script,
                    op: Op::from_json(&e["op"]),
                    detail: e["detail"].as_str().unwrap_or("").to_string(),
                    extra: e["extra"].clone(),
                };
                let sig = viol.sig.clone();
                self.violation(viol);
                if n > 1 {
                    if let Some((_, cnt)) = self.viol.lock().unwrap().get_mut(&sig) {
                        *cnt += n - 1;
                    }
                }
            }
        }
        self.add_transitions(v["transitions"].as_u64().unwrap_or(0));
        self.add_states(v["states"].as_u64().unwrap_or(0));
        if let Some(m) = v["counters"].as_object() {
            for (k, n) in m {
                self.count(k, n.as_u64().unwrap_or(0));
            }
        }
        if let Some(a) = v["samples"].as_array() {
            for s in a {
                self.sample(s.clone());
            }
        }
        if let Some(a) = v["outcomes"].as_array() {
            let set: HashSet<u64> = a.iter().filter_map(|x| x.as_u64()).collect();
            self.outcomes(&set);
        }
        if let Some(a) = v["caps"].as_array() {
            for s in a {
                self.cap(s.as_str().unwrap_or("").to_string());
            }
        }
        if let Some(a) = v["notes"].as_array() {
            for s in a {
                self.note(s.as_str().unwrap_or("").to_string());
            }
        }
        if let Some(m) = v["bounds"].as_object() {
            for (k, b) in m {
                self.bound(k, b.clone());
            }
        }
    }
}

#[derive(Clone, Debug)]
pub struct Known {
    pub status: String,
    pub property: String,
    pub signature: String,
    pub what: String,
}

pub fn load_known(path: &str) -> Vec<Known> {
    let txt = match std::fs::read_to_string(path) {
        Ok(t) => t,
        Err(_) => return vec![],
    };
    let v: Value = serde_json::from_str(&txt).expect("known_findings.json is not valid JSON");
    let mut out = Vec::new();
    if let Some(a) = v.get("entries").and_then(|e| e.as_array()) {
        for e in a {
            out.push(Known {
                status: e.get("status").and_then(|x| x.as_str()).unwrap_or("").to_string(),
                property: e.get("property").and_then(|x| x.as_str()).unwrap_or("").to_string(),
                signature: e.get("signature").and_then(|x| x.as_str()).unwrap_or("").to_string(),
                what: e.get("what").and_then(|x| x.as_str()).unwrap_or("").to_string(),
            });
        }
    }
    out
}

pub fn violation_json(v: &Violation, count: u64) -> Value {
    json!({
        "property": v.property,
        "engine": v.engine,
        "signature": v.sig,
        "occurrences_in_run": count,
        "columns": v.columns,
        "lines": v.lines,
        "script": v.script.iter().map(|o| o.to_json()).collect::<Vec<_>>(),
        "script_short": v.script.iter().map(|o| o.short()).collect::<Vec<_>>(),
        "op": v.op.as_ref().map(|o| o.to_json()),
        "op_short": v.op.as_ref().map(|o| o.short()),
        "detail": v.detail,
        "extra": v.extra,
        "build": "opt-level=2 overflow-checks debug-assertions --cfg memterm_verif",
        "how_to_replay": "cd /verif && ./check replay <this file>",
    })
}

pub struct Outcome {
    pub exit: i32,
}

/// Finish a run: match violations against the known-findings file, write replay
/// files and evidence, print the verdict lines. Returns the exit code.
/// Where replay files and evidence go: /verif, unless VERIF_OUT_DIR says otherwise (the seed
/// runner points it elsewhere so that runs against seeded changes never overwrite the evidence
/// of the real tree).
pub fn out_dir(verif_dir: &str) -> String {
    std::env::var("VERIF_OUT_DIR").ok().filter(|s| !s.is_empty()).unwrap_or_else(|| verif_dir.to_string())
}

pub fn finish(c: &Collector, verif_dir: &str, level_rule: &str, assumptions: &[&str], exhaustive: bool, machinery_errors: &[String]) -> i32 {
    let known = load_known(&format!("{}/known_findings.json", verif_dir));
    let viol = c.viol.lock().unwrap_or_else(|e| e.into_inner());
    let mut exit = 0;
    let mut n_written = 0;
    let mut known_matched = Vec::new();
    let mut io_errors: Vec<String> = Vec::new();
    let replay_dir = format!("{}/replays", out_dir(verif_dir));
    if let Err(e) = std::fs::create_dir_all(&replay_dir) {
        io_errors.push(format!("cannot create {}: {}", replay_dir, e));
    }
    // remove stale replay files of this property
    if let Ok(rd) = std::fs::read_dir(&replay_dir) {
        for e in rd.flatten() {
            let n = e.file_name().to_string_lossy().to_string();
            if n.starts_with(&format!("{}-", c.property)) {
                let _ = std::fs::remove_file(e.path());
            }
        }
    }
    let mut unlisted = 0u64;
    for (sig, (v, count)) in viol.iter() {
        let k = known
            .iter()
            .find(|k| k.status == "finding" && k.property == v.property && &k.signature == sig);
        if let Some(k) = k {
            out!("KNOWN-FINDING: property={} {} [{}] ({} occurrences)", v.property, k.what, sig, count);
            known_matched.push(sig.clone());
            continue;
        }
        unlisted += 1;
        exit = 1;
        if n_written < 20 {
            let path = format!("{}/{}-{}.json", replay_dir, c.property, n_written);
            let body = serde_json::to_string_pretty(&violation_json(v, *count)).unwrap_or_else(|_| "{}".into());
            // the verdict line does not depend on the artefact: a write error is reported, not fatal
            match std::fs::write(&path, body) {
                Ok(()) => out!("VIOLATION property={} replay={}", v.property, path),
                Err(e) => {
                    out!("VIOLATION property={} replay=(not written: {})", v.property, e);
                    io_errors.push(format!("cannot write {}: {}", path, e));
                }
            }
            out!(
                "  signature: {}\n  geometry {}x{} script: [{}]\n  op: {}\n  {}",
                sig,
                v.columns,
                v.lines,
                v.script.iter().map(|o| o.short()).collect::<Vec<_>>().join(", "),
                v.op.as_ref().map(|o| o.short()).unwrap_or_default(),
                v.detail
            );
            n_written += 1;
        } else {
            out!("VIOLATION property={} replay=(not written: more than 20 signatures) signature={}", v.property, sig);
        }
    }
    let wall = c.start.elapsed().as_secs_f64();
    let transitions = c.transitions.load(Ordering::Relaxed);
    let states = c.states.load(Ordering::Relaxed);
    let outcomes = c.outcomes.lock().unwrap().len();
    let caps = c.caps.lock().unwrap().clone();
    let counters = c.counters.lock().unwrap().clone();
    let samples = c.samples.lock().unwrap().clone();
    let oracle_checks = counters.get("oracle_checks").cloned().unwrap_or(0);
    if outcomes >= 20_000_000 {
        c.note("distinct_nontrivial is a lower bound: the set of distinct outcomes is capped at 20 million entries (and at 1 million per worker)".to_string());
    }
    let seed: i64 = std::env::var("VERIF_SEED").ok().and_then(|s| s.parse().ok()).unwrap_or(0);
    let ev = json!({
        "property_id": c.property,
        "tier": c.tier,
        "seed": seed,
        "level": "model_checking",
        "coverage": {
            "states": states,
            "transitions": transitions,
            // implementation executions whose result an oracle (reference model, invariant,
            // differential twin) actually judged; the rest of `transitions` only extend the search
            "traces_validated_against_impl": oracle_checks,
            "distinct_nontrivial": outcomes,
            "rule": level_rule,
            "samples": samples,
            "exhaustive": exhaustive && caps.is_empty() && machinery_errors.is_empty(),
            "machinery_errors": machinery_errors,
            "distinct_outcomes": outcomes,
            "caps_hit": caps,
            "bounds": *c.bounds.lock().unwrap(),
            "class_counters": counters,
            "known_findings_matched": known_matched,
            "notes": *c.notes.lock().unwrap(),
        },
        "assumptions": assumptions,
        "wall_s": wall,
        "violations": unlisted,
    });
    let evdir = format!("{}/evidence", out_dir(verif_dir));
    let _ = std::fs::create_dir_all(&evdir);
    if let Err(e) = std::fs::write(format!("{}/{}.json", evdir, c.property), serde_json::to_string_pretty(&ev).unwrap_or_default()) {
        io_errors.push(format!("cannot write evidence: {}", e));
    }
    out!(
        "{} {}: states={} transitions={} distinct_outcomes={} violations={} known={} wall={:.1}s{}",
        c.property,
        c.tier,
        states,
        transitions,
        outcomes,
        unlisted,
        known_matched.len(),
        wall,
        if caps.is_empty() { String::new() } else { format!(" caps_hit={:?}", caps) }
    );
    for e in &io_errors {
        out!("MACHINERY: {}", e);
    }
    if exit == 0 && !io_errors.is_empty() {
        return 2;
    }
    exit
}
