//! Reference screen semantics on the observable view (`Snap`), written from the
//! property statements (DESIGN.md section 5). Dense grid, list-splice edits.
//! `dirty` is NOT modelled here (C17 is model-free).

use unicode_normalization::char::is_combining_mark;
use unicode_normalization::UnicodeNormalization;
use unicode_width::UnicodeWidthChar;

use crate::ops::{Op, P};
use crate::recog;
use crate::snapshot::*;
use crate::tables;

pub const LNM: u32 = 20;
pub const IRM: u32 = 4;
pub const DECTCEM: u32 = 25 << 5;
pub const DECOM: u32 = 6 << 5;
pub const DECAWM: u32 = 7 << 5;
pub const DECCOLM: u32 = 3 << 5;

/// Declared don't-care regions hit by a transition (DESIGN.md section 5, D1..D11).
#[derive(Clone, Default, Debug)]
pub struct Dc {
    /// only no-crash / well-formedness is demanded (D6, D8, D11)
    pub all: bool,
    /// D1: cursor position anywhere inside the bounds
    pub cursor_pos: bool,
    /// D2: cursor.x may also be this value
    pub cursor_x_alt: Option<u32>,
    /// D3
    pub saved_columns: bool,
    /// D4: renditions of grid cells not compared
    pub grid_rendition: bool,
    /// D7: tab stops not compared
    pub tabstops: bool,
    /// D8 (narrow form): title and icon name not compared
    pub labels: bool,
    /// D12: after `CSI r` (region removed) the cursor may stay or be homed
    pub cursor_home_alt: bool,
    /// D13: DECRC may keep the DECTCEM mode bit or bring it in line with the restored visibility
    pub dectcem_alt: Option<bool>,
    /// D6 (narrowed): cells whose content is not compared (the last-column cell a double-width
    /// character was drawn into as the final character of the operation)
    pub free_cells: Vec<(usize, usize)>,
    /// DECCOLM "erases the screen": where the model has this erase blank (cursor rendition), the
    /// second cell (default blank) is accepted as well
    pub erase_alt: Option<(Cell, Cell)>,
    pub why: Vec<&'static str>,
}

impl Dc {
    fn mark_all(&mut self, why: &'static str) {
        self.all = true;
        self.why.push(why);
    }
}

pub struct Model {
    pub s: Snap,
    pub dc: Dc,
    /// the operation switched reverse video (DECSCNM on <-> off): C12 demands every row dirty
    pub all_dirty: bool,
    /// may a D6 draw be judged narrowly (nothing follows it inside this operation)?
    d6_narrow: bool,
    /// facts about what happened (vacuity counters)
    pub scrolled: bool,
    pub wrapped: bool,
}

fn n1(p: P) -> u32 {
    match p {
        None | Some(0) => 1,
        Some(v) => v,
    }
}

impl Model {
    pub fn new(pre: &Snap) -> Model {
        Model { s: pre.clone(), dc: Dc::default(), all_dirty: false, d6_narrow: true, scrolled: false, wrapped: false }
    }

    fn c(&self) -> u32 {
        self.s.columns
    }
    fn l(&self) -> u32 {
        self.s.lines
    }
    fn region(&self) -> (u32, u32) {
        self.s.margins.unwrap_or((0, self.l() - 1))
    }
    fn has(&self, m: u32) -> bool {
        self.s.has_mode(m)
    }
    fn blank(&self) -> Cell {
        self.s.blank()
    }
    fn eblank(&self) -> Cell {
        self.s.cursor.attr.with_data(" ")
    }
    fn blank_row(&self) -> Vec<Cell> {
        vec![self.blank(); self.c() as usize]
    }
    fn set_mode_bit(&mut self, m: u32, on: bool) {
        match self.s.modes.binary_search(&m) {
            Ok(i) => {
                if !on {
                    self.s.modes.remove(i);
                }
            }
            Err(i) => {
                if on {
                    self.s.modes.insert(i, m);
                }
            }
        }
    }

    // ------------------------------------------------------------ motion
    fn cuu(&mut self, p: P) {
        let (top, _) = self.region();
        self.s.cursor.y = self.s.cursor.y.saturating_sub(n1(p)).max(top);
    }
    fn cud(&mut self, p: P) {
        let (_, bot) = self.region();
        self.s.cursor.y = (self.s.cursor.y + n1(p)).min(bot);
    }
    fn cuf(&mut self, p: P) {
        self.s.cursor.x = (self.s.cursor.x + n1(p)).min(self.c() - 1);
    }
    fn cub(&mut self, p: P) {
        if self.s.cursor.x == self.c() {
            self.s.cursor.x = self.c() - 1;
        }
        self.s.cursor.x = self.s.cursor.x.saturating_sub(n1(p));
    }
    fn cha(&mut self, p: P) {
        self.s.cursor.x = (n1(p) - 1).min(self.c() - 1);
    }
    fn origin_region(&self) -> Option<(u32, u32)> {
        if self.has(DECOM) {
            self.s.margins
        } else {
            None
        }
    }
    fn vpa(&mut self, p: P) {
        let mut r = n1(p) - 1;
        match self.origin_region() {
            Some((top, bot)) => {
                r += top;
                self.s.cursor.y = r.clamp(top, bot);
            }
            None => self.s.cursor.y = r.min(self.l() - 1),
        }
    }
    fn cup(&mut self, row: P, col: P) {
        let mut r = n1(row) - 1;
        let c = n1(col) - 1;
        match self.origin_region() {
            Some((top, bot)) => {
                r += top;
                if r < top || r > bot {
                    return;
                }
                self.s.cursor.y = r;
            }
            None => self.s.cursor.y = r.min(self.l() - 1),
        }
        self.s.cursor.x = c.min(self.c() - 1);
    }

    // ------------------------------------------------------------ scrolling
    fn index(&mut self) {
        let (top, bot) = self.region();
        if self.s.cursor.y == bot {
            let blank = self.blank_row();
            self.s.grid.remove(top as usize);
            self.s.grid.insert(bot as usize, blank);
            self.scrolled = true;
        } else {
            self.cud(None);
        }
    }
    fn linefeed(&mut self) {
        self.index();
        if self.has(LNM) {
            self.s.cursor.x = 0;
        }
    }
    fn reverse_index(&mut self) {
        let (top, bot) = self.region();
        if self.s.cursor.y == top {
            let blank = self.blank_row();
            self.s.grid.remove(bot as usize);
            self.s.grid.insert(top as usize, blank);
            self.scrolled = true;
        } else {
            self.cuu(None);
        }
    }
    fn il(&mut self, p: P) {
        let (top, bot) = self.region();
        let y = self.s.cursor.y;
        if y < top || y > bot {
            return;
        }
        let k = n1(p).min(bot - y + 1);
        for _ in 0..k {
            let blank = self.blank_row();
            self.s.grid.remove(bot as usize);
            self.s.grid.insert(y as usize, blank);
        }
        self.s.cursor.x = 0;
    }
    fn dl(&mut self, p: P) {
        let (top, bot) = self.region();
        let y = self.s.cursor.y;
        if y < top || y > bot {
            return;
        }
        let k = n1(p).min(bot - y + 1);
        for _ in 0..k {
            let blank = self.blank_row();
            self.s.grid.remove(y as usize);
            self.s.grid.insert(bot as usize, blank);
        }
        self.s.cursor.x = 0;
    }
    fn set_margins(&mut self, t: P, b: P) {
        if (t.is_none() || t == Some(0)) && b.is_none() {
            self.s.margins = None;
            self.dc.cursor_home_alt = true;
            return;
        }
        let (ctop, cbot) = self.region();
        let lmax = self.l() as i64 - 1;
        let top = match t {
            None => ctop as i64,
            Some(v) => (v as i64 - 1).clamp(0, lmax),
        };
        let bot = match b {
            None => cbot as i64,
            Some(v) => (v as i64 - 1).clamp(0, lmax),
        };
        if bot - top >= 1 {
            self.s.margins = Some((top as u32, bot as u32));
            self.cup(None, None);
        }
    }

    // ------------------------------------------------------------ erase
    fn el(&mut self, h: P) {
        let c = self.c();
        let x = self.s.cursor.x;
        let range = match h.unwrap_or(0) {
            0 => x.min(c)..c,
            1 => 0..(x.min(c - 1) + 1),
            2 => 0..c,
            _ => 0..0,
        };
        let eb = self.eblank();
        let y = self.s.cursor.y as usize;
        for i in range {
            self.s.grid[y][i as usize] = eb.clone();
        }
    }
    fn ed(&mut self, h: P) {
        let h = h.unwrap_or(0);
        let y = self.s.cursor.y;
        let rows = match h {
            0 => (y + 1)..self.l(),
            1 => 0..y,
            2 | 3 => 0..self.l(),
            _ => 0..0,
        };
        let eb = self.eblank();
        for r in rows {
            for cell in self.s.grid[r as usize].iter_mut() {
                *cell = eb.clone();
            }
        }
        if h == 0 || h == 1 {
            self.el(Some(h));
        }
    }
    fn ech(&mut self, p: P) {
        let c = self.c();
        let x = self.s.cursor.x;
        let eb = self.eblank();
        let y = self.s.cursor.y as usize;
        for i in x.min(c)..(x.saturating_add(n1(p))).min(c) {
            self.s.grid[y][i as usize] = eb.clone();
        }
    }

    // ------------------------------------------------------------ ICH / DCH
    fn ich(&mut self, p: P) {
        let c = self.c();
        let x = self.s.cursor.x;
        if x >= c {
            return;
        }
        let k = n1(p).min(c - x);
        let blank = self.blank();
        let row = &mut self.s.grid[self.s.cursor.y as usize];
        for _ in 0..k {
            row.pop();
            row.insert(x as usize, blank.clone());
        }
    }
    fn dch(&mut self, p: P) {
        let c = self.c();
        let x = self.s.cursor.x;
        if x >= c {
            return;
        }
        let k = n1(p).min(c - x);
        let blank = self.blank();
        let row = &mut self.s.grid[self.s.cursor.y as usize];
        for _ in 0..k {
            row.remove(x as usize);
            row.push(blank.clone());
        }
    }

    // ------------------------------------------------------------ text
    fn translate(&self, ch: char) -> char {
        if (ch as u32) < 256 {
            let t = if self.s.charset == 1 { &self.s.g1 } else { &self.s.g0 };
            tables::table_entry(t, ch as u32)
        } else {
            ch
        }
    }
    fn draw(&mut self, text: &str) {
        let n_chars = text.chars().count();
        for (ci, ch0) in text.chars().enumerate() {
            let ch = self.translate(ch0);
            let w = ch.width().unwrap_or(0) as u32;
            if w > 2 {
                // D16: the statement speaks of widths 0, 1 and 2; the width tables give exactly one
                // code point (U+17D8 KHMER SIGN BEYYAL) the width 3
                self.dc.mark_all("D16 character of display width 3");
                continue;
            }
            let c = self.c();
            if w > 0 && self.s.cursor.x == c {
                if self.has(DECAWM) {
                    self.s.cursor.x = 0;
                    self.linefeed();
                    self.wrapped = true;
                } else {
                    self.s.cursor.x = self.s.cursor.x.saturating_sub(w);
                }
            }
            if w > 0 && self.has(IRM) {
                self.ich(Some(w));
            }
            let (x, y) = (self.s.cursor.x as usize, self.s.cursor.y as usize);
            // snapshots of the implementation hold cell text after NFC (DESIGN 4): so does the model
            let chs: String = if ch.is_ascii() { ch.to_string() } else { ch.to_string().nfc().collect() };
            if w == 1 {
                self.s.grid[y][x] = self.s.cursor.attr.with_data(&chs);
            } else if w == 2 {
                if c == 1 || x + 1 >= c as usize {
                    if self.d6_narrow && ci + 1 == n_chars {
                        // nothing follows: only what that one cell holds is left open; the cursor
                        // ends at the pending-wrap column and nothing else changes
                        self.dc.free_cells.push((y, x));
                        self.dc.why.push("D6 double-width in the last column (cell content only)");
                    } else {
                        self.dc.mark_all("D6 double-width in the last column");
                    }
                }
                self.s.grid[y][x] = self.s.cursor.attr.with_data(&chs);
                if x + 1 < c as usize {
                    self.s.grid[y][x + 1] = self.s.cursor.attr.with_data("");
                }
            } else if w == 0 && is_combining_mark(ch) {
                let target = if x > 0 {
                    Some((y, x - 1))
                } else if y > 0 {
                    Some((y - 1, c as usize - 1))
                } else {
                    None
                };
                if let Some((ty, tx)) = target {
                    let old = self.s.grid[ty][tx].data.as_str().to_string();
                    if old.is_empty() {
                        self.dc.mark_all("D11 combining mark after a wide-character placeholder");
                    }
                    let new: String = (old + &ch.to_string()).nfc().collect();
                    self.s.grid[ty][tx].data = SStr::new(&new);
                }
            }
            if w > 0 {
                self.s.cursor.x = (self.s.cursor.x + w).min(c);
            }
        }
    }

    // ------------------------------------------------------------ SGR
    pub fn sgr(&mut self, attrs: &[u32]) {
        if attrs.is_empty() {
            self.s.cursor.attr = self.blank();
            return;
        }
        let mut a = self.s.cursor.attr.clone();
        let mut i = 0;
        while i < attrs.len() {
            let code = attrs[i];
            i += 1;
            if code == 0 {
                a = self.blank();
            } else if let Some((bit, on)) = tables::text_flag(code) {
                if on {
                    a.flags |= bit
                } else {
                    a.flags &= !bit
                }
            } else if let Some(n) = tables::fg_name(code) {
                a.fg = SStr::new(n);
            } else if let Some(n) = tables::bg_name(code) {
                a.bg = SStr::new(n);
            } else if code == 38 || code == 48 {
                if i >= attrs.len() {
                    break;
                }
                let n = attrs[i];
                i += 1;
                let mut colour: Option<String> = None;
                if n == 5 {
                    if i < attrs.len() {
                        let m = attrs[i];
                        i += 1;
                        if m <= 255 {
                            colour = Some(tables::palette(m));
                        }
                    }
                } else if n == 2 {
                    let avail = attrs.len() - i;
                    if avail >= 3 {
                        let (r, g, b) = (attrs[i], attrs[i + 1], attrs[i + 2]);
                        if r <= 255 && g <= 255 && b <= 255 {
                            colour = Some(format!("{:02x}{:02x}{:02x}", r, g, b));
                        }
                    }
                    i += avail.min(3);
                }
                if let Some(col) = colour {
                    if code == 38 {
                        a.fg = SStr::new(&col)
                    } else {
                        a.bg = SStr::new(&col)
                    }
                }
            }
        }
        a.data = SStr::new(" ");
        self.s.cursor.attr = a;
    }

    // ------------------------------------------------------------ modes
    fn resize(&mut self, lines: u32, columns: u32) {
        let (l0, c0) = (self.l(), self.c());
        if lines == l0 && columns == c0 {
            return;
        }
        let blank = self.blank();
        if lines < l0 {
            self.s.grid.drain(0..(l0 - lines) as usize);
        }
        while (self.s.grid.len() as u32) < lines {
            self.s.grid.push(vec![blank.clone(); c0 as usize]);
        }
        for row in self.s.grid.iter_mut() {
            row.resize(columns as usize, blank.clone());
        }
        self.s.lines = lines;
        self.s.columns = columns;
        self.s.margins = None;
        self.dc.cursor_pos = true;
        self.dc.tabstops = true;
    }

    fn mode_list(modes: &[u32], private: bool) -> Vec<u32> {
        modes.iter().map(|m| if private { m << 5 } else { *m }).collect()
    }

    fn sm(&mut self, modes: &[u32], private: bool) {
        let ml = Self::mode_list(modes, private);
        if ml.contains(&DECSCNM) && !self.has(DECSCNM) {
            self.all_dirty = true;
        }
        for m in &ml {
            self.set_mode_bit(*m, true);
        }
        if ml.contains(&DECCOLM) {
            // what DECCOLM does to the tab stops is C18's business (stops-frame), not C12's
            self.dc.tabstops = true;
            if self.s.saved_columns.is_some() {
                self.dc.saved_columns = true;
            }
            self.s.saved_columns = Some(self.c());
            self.resize(self.l(), 132);
            self.dc.cursor_pos = false;
            self.dc.erase_alt = Some((self.eblank(), self.blank()));
            self.ed(Some(2));
            self.cup(None, None);
        }
        if ml.contains(&DECOM) {
            self.cup(None, None);
        }
        if ml.contains(&DECSCNM) {
            for row in self.s.grid.iter_mut() {
                for c in row.iter_mut() {
                    c.flags |= F_REVERSE;
                }
            }
            self.s.cursor.attr.flags |= F_REVERSE;
            if let Some((a, b)) = self.dc.erase_alt.as_mut() {
                a.flags |= F_REVERSE;
                b.flags |= F_REVERSE;
            }
        }
        if ml.contains(&DECTCEM) {
            self.s.cursor.hidden = false;
        }
    }

    fn rm(&mut self, modes: &[u32], private: bool) {
        let ml = Self::mode_list(modes, private);
        if ml.contains(&DECSCNM) && self.has(DECSCNM) {
            self.all_dirty = true;
        }
        for m in &ml {
            self.set_mode_bit(*m, false);
        }
        if ml.contains(&DECCOLM) {
            self.dc.tabstops = true;
            if self.c() == 132 {
                if let Some(w) = self.s.saved_columns {
                    self.resize(self.l(), w);
                    self.dc.cursor_pos = false;
                    self.s.saved_columns = None;
                }
            }
            self.dc.erase_alt = Some((self.eblank(), self.blank()));
            self.ed(Some(2));
            self.cup(None, None);
        }
        if ml.contains(&DECOM) {
            self.cup(None, None);
        }
        if ml.contains(&DECSCNM) {
            for row in self.s.grid.iter_mut() {
                for c in row.iter_mut() {
                    c.flags &= !F_REVERSE;
                }
            }
            self.s.cursor.attr.flags &= !F_REVERSE;
            if let Some((a, b)) = self.dc.erase_alt.as_mut() {
                a.flags &= !F_REVERSE;
                b.flags &= !F_REVERSE;
            }
        }
        if ml.contains(&DECTCEM) {
            self.s.cursor.hidden = true;
        }
    }

    // ------------------------------------------------------------ save / restore
    fn save_cursor(&mut self) {
        self.s.saves.push(SaveS {
            cursor: self.s.cursor.clone(),
            g0: self.s.g0.clone(),
            g1: self.s.g1.clone(),
            charset: self.s.charset,
            origin: self.has(DECOM),
            wrap: self.has(DECAWM),
        });
    }
    fn restore_cursor(&mut self) {
        match self.s.saves.pop() {
            Some(sp) => {
                self.s.g0 = sp.g0;
                self.s.g1 = sp.g1;
                self.s.charset = sp.charset;
                if sp.origin {
                    self.set_mode_bit(DECOM, true);
                }
                if sp.wrap {
                    self.set_mode_bit(DECAWM, true);
                }
                self.s.cursor = sp.cursor;
                self.dc.dectcem_alt = Some(!self.s.cursor.hidden);
                let c = self.c();
                if self.s.cursor.x == c {
                    self.dc.cursor_x_alt = Some(c);
                }
                self.s.cursor.x = self.s.cursor.x.min(c - 1);
                let (top, bot) = self.region();
                self.s.cursor.y = self.s.cursor.y.clamp(top, bot);
            }
            None => {
                self.set_mode_bit(DECOM, false);
                self.cup(None, None);
            }
        }
    }

    fn reset(&mut self) {
        let saves = std::mem::take(&mut self.s.saves);
        let (l, c) = (self.l(), self.c());
        self.s = fresh(c, l);
        self.s.saves = saves;
    }

    fn tab(&mut self) {
        let c = self.c();
        let x = self.s.cursor.x;
        let next = self.s.tabstops.iter().cloned().filter(|s| *s > x).min();
        self.s.cursor.x = match next {
            Some(s) => s.min(c - 1),
            None => c - 1,
        };
    }

    // ------------------------------------------------------------ dispatch
    pub fn apply(&mut self, op: &Op) {
        let before = (self.s.cursor.x, self.s.cursor.y);
        let had_alt = self.dc.cursor_home_alt;
        self.apply_inner(op);
        if had_alt && (self.s.cursor.x, self.s.cursor.y) != before {
            // a later operation placed the cursor: the homing alternative of an earlier `CSI r` is over
            self.dc.cursor_home_alt = false;
        }
    }

    fn apply_inner(&mut self, op: &Op) {
        use Op::*;
        match op {
            Draw(t) => self.draw(t),
            Bell | Da(_) | Display | ClearDirty => {}
            Backspace => self.cub(None),
            Tab => self.tab(),
            Linefeed => self.linefeed(),
            Index => self.index(),
            ReverseIndex => self.reverse_index(),
            CarriageReturn => self.s.cursor.x = 0,
            ShiftOut => self.s.charset = 1,
            ShiftIn => self.s.charset = 0,
            SetTabStop => {
                let x = self.s.cursor.x;
                if let Err(i) = self.s.tabstops.binary_search(&x) {
                    self.s.tabstops.insert(i, x);
                }
            }
            SaveCursor => self.save_cursor(),
            RestoreCursor => self.restore_cursor(),
            Reset => self.reset(),
            AlignmentDisplay => {
                for row in self.s.grid.iter_mut() {
                    for c in row.iter_mut() {
                        c.data = SStr::new("E");
                    }
                }
                self.dc.grid_rendition = true;
            }
            DefineCharset(code, mode) => {
                if let Some(t) = tables::table_for_code(code) {
                    if mode == "(" {
                        self.s.g0 = t;
                    } else if mode == ")" {
                        self.s.g1 = t;
                    }
                }
            }
            Ich(p) => self.ich(*p),
            Cuu(p) => self.cuu(*p),
            Cud(p) => self.cud(*p),
            Cuf(p) => self.cuf(*p),
            Cub(p) => self.cub(*p),
            Cnl(p) => {
                self.cud(*p);
                self.s.cursor.x = 0;
            }
            Cpl(p) => {
                self.cuu(*p);
                self.s.cursor.x = 0;
            }
            Cha(p) => self.cha(*p),
            Cup(a, b) => self.cup(*a, *b),
            Ed(p) => self.ed(*p),
            El(p) => self.el(*p),
            Il(p) => self.il(*p),
            Dl(p) => self.dl(*p),
            Dch(p) => self.dch(*p),
            Ech(p) => self.ech(*p),
            Vpa(p) => self.vpa(*p),
            Tbc(p) => match p.unwrap_or(0) {
                0 => {
                    let x = self.s.cursor.x;
                    self.s.tabstops.retain(|s| *s != x);
                }
                3 => self.s.tabstops.clear(),
                _ => {}
            },
            Sm(v, p) => self.sm(v, *p),
            Rm(v, p) => self.rm(v, *p),
            Sgr(v) => self.sgr(v),
            SetTitle(t) => self.s.title = t.clone(),
            SetIconName(t) => self.s.icon = t.clone(),
            SetMargins(a, b) => self.set_margins(*a, *b),
            Resize(a, b) => {
                let l = a.unwrap_or(self.l());
                let c = b.unwrap_or(self.c());
                self.resize(l, c);
            }
            Feed(chunks, utf8) => {
                let all: String = chunks.concat();
                self.feed_str(&all, *utf8);
            }
            FeedBytes(chunks, utf8) => {
                let all: Vec<u8> = chunks.concat();
                let s = crate::utf8ref::decode(&all, *utf8);
                self.feed_str(&s, *utf8);
            }
        }
    }

    fn feed_str(&mut self, s: &str, utf8: bool) {
        let rec = recog::recognise_full(s, utf8);
        let (ev, d8, d10) = (rec.events, rec.d8, rec.d10_events);
        if d8 {
            self.dc.mark_all("D8 unusual OSC shape");
        }
        if rec.d8_labels {
            self.dc.labels = true;
            self.dc.why.push("D8 OSC string without ';' (labels only)");
        }
        if rec.events_alt.is_some() {
            self.dc.mark_all("D15 ESC inside an unfinished sequence");
        }
        for (i, e) in ev.iter().enumerate() {
            if d10.contains(&i) {
                // D10: whether the CAN / SUB that aborts a CSI is handed to draw() is not specified.
                // It only shows if the table active right now maps it to a printable glyph
                // (CP437 / VAX42 turn 0x18 and 0x1a into arrows).
                if let Op::Draw(t) = e {
                    if t.chars().any(|c| self.translate(c).width().unwrap_or(0) > 0) {
                        self.dc.mark_all("D10 CAN/SUB abort under a charset that prints it");
                    }
                }
            }
            // a don't-care an earlier sequence of this stream left open (where the cursor is after
            // DECRC in the pending-wrap column / after `CSI r`, which tab stops a width change leaves;
            // not D13, the DECTCEM bit after DECRC, which no later sequence reads)
            // decides what everything after it does: nothing later in the stream is compared
            if i > 0 && !self.dc.all && (self.dc.cursor_x_alt.is_some() || self.dc.cursor_home_alt || self.dc.cursor_pos || self.dc.tabstops) {
                self.dc.mark_all("a don't-care left open by an earlier sequence of the same stream");
            }
            self.d6_narrow = i + 1 == ev.len();
            self.apply(e);
        }
        self.d6_narrow = true;
        // D17: the column after NEL. The screen-side statements (C06) pin the row and the scroll; the
        // documented behaviour is "same as LF" (column kept unless LNM), ECMA-48 says CR + LF. Both are
        // accepted when NEL is the last thing in the stream (C03 still pins the documented event).
        if s.ends_with("\x1bE") && !self.dc.all && self.dc.cursor_x_alt.is_none() {
            self.dc.cursor_x_alt = Some(0);
            self.dc.why.push("D17 column after NEL");
        }
    }
}

/// The power-on state of a columns x lines screen (C15/C18 reference).
pub fn fresh(columns: u32, lines: u32) -> Snap {
    let blank = Cell::blank(false);
    let mut tabstops = Vec::new();
    let mut t = 8;
    while t < columns {
        tabstops.push(t);
        t += 8;
    }
    let mut modes = vec![DECAWM, DECTCEM];
    modes.sort_unstable();
    Snap {
        lines,
        columns,
        grid: vec![vec![blank.clone(); columns as usize]; lines as usize],
        cursor: CursorS { x: 0, y: 0, attr: blank, hidden: false },
        margins: None,
        modes,
        tabstops,
        title: String::new(),
        icon: String::new(),
        charset: 0,
        g0: CsId::Lat1,
        g1: CsId::Vt100,
        saves: vec![],
        saved_columns: None,
        dirty: (0..lines).collect(),
    }
}

/// Components of the observable view, for owner-specific comparison.
#[derive(Clone, Copy, PartialEq, Eq, Debug, Hash)]
pub enum Comp {
    Geometry,
    Grid,
    CursorPos,
    CursorAttr,
    CursorHidden,
    Margins,
    Modes,
    Tabstops,
    Title,
    Icon,
    Charsets,
    Saves,
    SavedColumns,
}

pub const ALL_COMPS: [Comp; 13] = [
    Comp::Geometry,
    Comp::Grid,
    Comp::CursorPos,
    Comp::CursorAttr,
    Comp::CursorHidden,
    Comp::Margins,
    Comp::Modes,
    Comp::Tabstops,
    Comp::Title,
    Comp::Icon,
    Comp::Charsets,
    Comp::Saves,
    Comp::SavedColumns,
];

fn visible_stops(t: &[u32], columns: u32) -> Vec<u32> {
    t.iter().cloned().filter(|s| *s < columns).collect()
}

/// Compare expected (model) and observed post-states on the given components,
/// honouring the don't-care flags. Returns the list of mismatching components
/// with a description.
pub fn compare(exp: &Snap, obs: &Snap, dc: &Dc, comps: &[Comp]) -> Vec<(Comp, String)> {
    let mut out = Vec::new();
    if dc.all {
        return out;
    }
    for comp in comps {
        match comp {
            Comp::Geometry => {
                if (exp.lines, exp.columns) != (obs.lines, obs.columns) {
                    out.push((
                        *comp,
                        format!(
                            "geometry expected {}x{} observed {}x{}",
                            exp.columns, exp.lines, obs.columns, obs.lines
                        ),
                    ));
                }
            }
            Comp::Grid => {
                if (exp.lines, exp.columns) != (obs.lines, obs.columns) {
                    continue; // reported under Geometry
                }
                'g: for y in 0..exp.grid.len() {
                    for x in 0..exp.grid[y].len() {
                        let (e, o) = (&exp.grid[y][x], &obs.grid[y][x]);
                        if dc.free_cells.contains(&(y, x)) {
                            continue;
                        }
                        let mut same = if dc.grid_rendition { e.data == o.data } else { e == o };
                        if !same {
                            if let Some((eb, alt)) = &dc.erase_alt {
                                same = e == eb && o == alt;
                            }
                        }
                        if !same {
                            out.push((
                                *comp,
                                format!(
                                    "cell ({},{}) expected {:?} observed {:?}; expected rows {:?} observed rows {:?}",
                                    x,
                                    y,
                                    e,
                                    o,
                                    exp.grid_text(),
                                    obs.grid_text()
                                ),
                            ));
                            break 'g;
                        }
                    }
                }
            }
            Comp::CursorPos => {
                if dc.cursor_pos {
                    continue;
                }
                let xok = exp.cursor.x == obs.cursor.x || dc.cursor_x_alt == Some(obs.cursor.x);
                if dc.cursor_home_alt && obs.cursor.x == 0 && obs.cursor.y == 0 {
                    continue;
                }
                if !xok || exp.cursor.y != obs.cursor.y {
                    out.push((
                        *comp,
                        format!(
                            "cursor expected ({},{}) observed ({},{})",
                            exp.cursor.x, exp.cursor.y, obs.cursor.x, obs.cursor.y
                        ),
                    ));
                }
            }
            Comp::CursorAttr => {
                if exp.cursor.attr != obs.cursor.attr {
                    out.push((
                        *comp,
                        format!("rendition expected {:?} observed {:?}", exp.cursor.attr, obs.cursor.attr),
                    ));
                }
            }
            Comp::CursorHidden => {
                if exp.cursor.hidden != obs.cursor.hidden {
                    out.push((
                        *comp,
                        format!("hidden expected {} observed {}", exp.cursor.hidden, obs.cursor.hidden),
                    ));
                }
            }
            Comp::Margins => {
                if exp.margins != obs.margins {
                    out.push((*comp, format!("margins expected {:?} observed {:?}", exp.margins, obs.margins)));
                }
            }
            Comp::Modes => {
                if let Some(visible) = dc.dectcem_alt {
                    // accepted as well: DECTCEM membership equal to the restored visibility
                    let mut alt: Vec<u32> = exp.modes.iter().cloned().filter(|m| *m != DECTCEM).collect();
                    if visible {
                        alt.push(DECTCEM);
                        alt.sort_unstable();
                    }
                    if alt == obs.modes {
                        continue;
                    }
                }
                if exp.modes != obs.modes {
                    out.push((*comp, format!("modes expected {:?} observed {:?}", exp.modes, obs.modes)));
                }
            }
            Comp::Tabstops => {
                if dc.tabstops {
                    continue;
                }
                let (e, o) = (visible_stops(&exp.tabstops, exp.columns), visible_stops(&obs.tabstops, obs.columns));
                if e != o {
                    out.push((*comp, format!("tabstops expected {:?} observed {:?}", e, o)));
                }
            }
            Comp::Title => {
                if !dc.labels && exp.title != obs.title {
                    out.push((*comp, format!("title expected {:?} observed {:?}", exp.title, obs.title)));
                }
            }
            Comp::Icon => {
                if !dc.labels && exp.icon != obs.icon {
                    out.push((*comp, format!("icon expected {:?} observed {:?}", exp.icon, obs.icon)));
                }
            }
            Comp::Charsets => {
                if (exp.charset, &exp.g0, &exp.g1) != (obs.charset, &obs.g0, &obs.g1) {
                    out.push((
                        *comp,
                        format!(
                            "charsets expected ({},{:?},{:?}) observed ({},{:?},{:?})",
                            exp.charset,
                            short_cs(&exp.g0),
                            short_cs(&exp.g1),
                            obs.charset,
                            short_cs(&obs.g0),
                            short_cs(&obs.g1)
                        ),
                    ));
                }
            }
            Comp::Saves => {
                if exp.saves != obs.saves {
                    out.push((
                        *comp,
                        format!(
                            "saved-cursor stack expected depth {} observed depth {} (or entries differ)",
                            exp.saves.len(),
                            obs.saves.len()
                        ),
                    ));
                }
            }
            Comp::SavedColumns => {
                if dc.saved_columns {
                    continue;
                }
                // remembering 132 on a screen that is 132 wide is the same as remembering nothing:
                // RM restores "the previous width" either way
                let norm = |s: &Snap| if s.columns == 132 { s.saved_columns.filter(|w| *w != 132) } else { s.saved_columns };
                if norm(exp) != norm(obs) {
                    out.push((
                        *comp,
                        format!("saved_columns expected {:?} observed {:?}", exp.saved_columns, obs.saved_columns),
                    ));
                }
            }
        }
    }
    out
}

pub fn short_cs(c: &CsId) -> &'static str {
    match c {
        CsId::Lat1 => "B",
        CsId::Vt100 => "0",
        CsId::Ibmpc => "U",
        CsId::Vax42 => "V",
        CsId::Other(_) => "other",
    }
}
