//! C01: crash driver (engine E5). Everything the other engines enumerate, run
//! for "returned normally, display() still works, further input still processed".

use std::collections::HashSet;
use std::io::Write;
use std::sync::{Arc, Mutex};
use std::time::Duration;

use memterm::byte_parser::ByteParser;
use memterm::parser::Parser;
use memterm::parser_listener::ParserListener;
use memterm::screen::Screen;
use serde_json::json;

use crate::explore::{bfs, sweep, Base};
use crate::isolate::fork_map;
use crate::judge::*;
use crate::ops::{apply, build, esc, hex, take_panic, Op, P, IN_SUBJECT};
use crate::props::{gen_bases, Guard};
use crate::props2::full_alphabet;
use crate::props3::{alphabet_a, byte_alphabet, macro_alphabet, session_names};
use crate::recog::Recog;
use crate::report::{Collector, Violation};
use crate::seeds::*;
use crate::snapshot::wellformed;

/// From any recogniser state this brings the parser back to ground (checked
/// against the reference recogniser for every case), so that the follow-up
/// `ESC c x` must have its effect.
const FLUSH: &str = "\x18\x18\x18\x18\x18\x18\x18\x18\x18\x07\x18";

fn guarded<R>(f: impl FnOnce() -> R) -> Result<R, String> {
    take_panic();
    IN_SUBJECT.with(|x| x.set(true));
    let r = std::panic::catch_unwind(std::panic::AssertUnwindSafe(f));
    IN_SUBJECT.with(|x| x.set(false));
    match r {
        Ok(v) => Ok(v),
        Err(p) => {
            let hooked = take_panic();
            let msg = if let Some(s) = p.downcast_ref::<&str>() {
                s.to_string()
            } else if let Some(s) = p.downcast_ref::<String>() {
                s.clone()
            } else {
                "<non-string panic>".into()
            };
            Err(if hooked.starts_with(&msg) { hooked } else { msg })
        }
    }
}

pub struct Progress {
    file: Option<std::fs::File>,
}

impl Progress {
    pub fn new() -> Progress {
        let file = std::env::var("VERIF_CASE_PROGRESS").ok().and_then(|p| std::fs::OpenOptions::new().create(true).write(true).truncate(true).open(p).ok());
        Progress { file }
    }
    #[inline]
    pub fn case(&mut self, desc: impl FnOnce() -> String) {
        if let Some(f) = &mut self.file {
            use std::io::Seek;
            let _ = f.seek(std::io::SeekFrom::Start(0));
            let d = desc();
            let _ = f.write_all(format!("{:<400}", d).as_bytes());
        }
    }
}

/// One byte-stream case: feed the chunks to a fresh ByteParser on a cols x lines screen,
/// display() after every chunk, then flush + ESC c + x and look for the x.
pub fn stream_case(c: &Collector, cols: u32, lines: u32, chunks: &[Vec<u8>], utf8: bool, engine: &str, outcomes: &mut HashSet<u64>) {
    let r = guarded(|| {
        let arc = Arc::new(Mutex::new(Screen::new(cols, lines)));
        let mut ok_rows = true;
        let cell;
        {
            let mut p = ByteParser::new(arc.clone());
            if !utf8 {
                p.select_other_charset("@");
            }
            for ch in chunks {
                p.feed(ch);
                // single-threaded: if the listener mutex is still locked after feed() returned, the
                // parser kept a guard across its suspension point and every later access would hang
                let mut g = match arc.try_lock() {
                    Ok(g) => g,
                    Err(std::sync::TryLockError::WouldBlock) => panic!("listener mutex is still locked after feed() returned (any further access to the screen would block forever)"),
                    Err(std::sync::TryLockError::Poisoned(e)) => e.into_inner(),
                };
                let d = g.display();
                ok_rows &= d.len() as u32 == g.lines;
            }
            p.feed(FLUSH.as_bytes());
            p.feed(b"\x1bcx");
            let mut s = arc.lock().unwrap();
            let d = s.display();
            ok_rows &= d.len() as u32 == s.lines;
            cell = s.buffer.get(&0).and_then(|l| l.get(&0)).map(|c| c.data.clone());
        }
        let s = arc.lock().unwrap();
        (ok_rows, cell, wellformed(&s), crate::snapshot::full_key(&s) as u64)
    });
    let mk = |class: String, detail: String| Violation {
        property: "C01".into(),
        engine: engine.into(),
        sig: class,
        columns: cols,
        lines,
        script: vec![],
        op: Some(Op::FeedBytes(chunks.to_vec(), utf8)),
        detail,
        extra: json!({"follow_up": esc(&format!("{}\x1bcx", FLUSH)), "display_after_every_chunk": true}),
    };
    let shape = format!("{}|{}", if chunks.len() > 1 { "chunked" } else { "single" }, if utf8 { "utf8" } else { "8bit" });
    match r {
        Err(m) => c.violation(mk(
            format!("stream|panic:{}|{}", panic_class(&m), shape),
            format!("{}x{} screen, bytes {}: {}", cols, lines, chunks.iter().map(|x| hex(x)).collect::<Vec<_>>().join(" | "), m),
        )),
        Ok((ok_rows, cell, wf, key)) => {
            if outcomes.len() < 1_000_000 {
                outcomes.insert(key);
            }
            if !ok_rows {
                c.violation(mk(format!("stream|display-rows|{}", shape), "display() did not return `lines` rows".into()));
            }
            if !wf.is_empty() {
                c.violation(mk(format!("stream|illformed|{}", shape), wf.join("; ")));
            }
            // the reference recogniser must agree that FLUSH reached ground; then x must be on the grid
            let all: Vec<u8> = chunks.concat();
            let text = crate::utf8ref::decode(&all, utf8);
            let mut rec = Recog::new(utf8);
            rec.feed(&text);
            rec.feed(FLUSH);
            if rec.in_ground() {
                if cell.as_deref() != Some("x") {
                    c.violation(mk(
                        format!("stream|wedged|{}", shape),
                        format!(
                            "after bytes {} the follow-up ESC c x left cell (0,0) = {:?}: further input is not processed normally",
                            chunks.iter().map(|x| hex(x)).collect::<Vec<_>>().join(" | "),
                            cell
                        ),
                    ));
                }
            }
        }
    }
}

pub fn char_case(c: &Collector, cols: u32, lines: u32, chunks: &[String], utf8: bool, engine: &str, outcomes: &mut HashSet<u64>) {
    let r = guarded(|| {
        let arc = Arc::new(Mutex::new(Screen::new(cols, lines)));
        let cell;
        {
            let mut p = Parser::new(arc.clone());
            if !utf8 {
                p.set_use_utf8(false);
            }
            for ch in chunks {
                p.feed(ch.clone());
                let mut g = match arc.try_lock() {
                    Ok(g) => g,
                    Err(std::sync::TryLockError::WouldBlock) => panic!("listener mutex is still locked after feed() returned (any further access to the screen would block forever)"),
                    Err(std::sync::TryLockError::Poisoned(e)) => e.into_inner(),
                };
                let _ = g.display();
            }
            p.feed(FLUSH.to_string());
            p.feed("\x1bcx".to_string());
            let mut s = arc.lock().unwrap();
            let _ = s.display();
            cell = s.buffer.get(&0).and_then(|l| l.get(&0)).map(|c| c.data.clone());
        }
        let s = arc.lock().unwrap();
        (cell, wellformed(&s), crate::snapshot::full_key(&s) as u64)
    });
    let mk = |class: String, detail: String| Violation {
        property: "C01".into(),
        engine: engine.into(),
        sig: class,
        columns: cols,
        lines,
        script: vec![],
        op: Some(Op::Feed(chunks.to_vec(), utf8)),
        detail,
        extra: json!({"follow_up": esc(&format!("{}\x1bcx", FLUSH)), "display_after_every_chunk": true}),
    };
    let shape = format!("{}|{}", if chunks.len() > 1 { "chunked" } else { "single" }, if utf8 { "utf8" } else { "8bit" });
    match r {
        Err(m) => c.violation(mk(
            format!("chars|panic:{}|{}", panic_class(&m), shape),
            format!("{}x{} screen, input {}: {}", cols, lines, chunks.iter().map(|x| esc(x)).collect::<Vec<_>>().join(" | "), m),
        )),
        Ok((cell, wf, key)) => {
            if outcomes.len() < 1_000_000 {
                outcomes.insert(key);
            }
            if !wf.is_empty() {
                c.violation(mk(format!("chars|illformed|{}", shape), wf.join("; ")));
            }
            let mut rec = Recog::new(utf8);
            for ch in chunks {
                rec.feed(ch);
            }
            rec.feed(FLUSH);
            if rec.in_ground() && cell.as_deref() != Some("x") {
                c.violation(mk(
                    format!("chars|wedged|{}", shape),
                    format!("after {} the follow-up ESC c x left cell (0,0) = {:?}", chunks.iter().map(|x| esc(x)).collect::<Vec<_>>().join(" | "), cell),
                ));
            }
        }
    }
}

fn two_way_cuts(b: &[u8]) -> Vec<Vec<Vec<u8>>> {
    let mut v = vec![vec![b.to_vec()]];
    for cut in 1..b.len() {
        v.push(vec![b[..cut].to_vec(), b[cut..].to_vec()]);
    }
    v
}

/// fork_map for C01: an abnormal worker end (abort, stack overflow, allocation failure,
/// watchdog expiry = hang) is itself the verdict if it reproduces. The partition is run
/// again alone in a fresh worker with per-case progress recording; a second abnormal end
/// becomes a C01 violation naming the case that was running, otherwise it is a machinery error.
fn fork_map_c01<F: Fn(usize, &Collector)>(c: &Collector, what: &str, n_parts: usize, timeout: Duration, f: F) {
    let crashes = fork_map(c, n_parts, timeout, &f);
    let mut confirmed = 0;
    for cr in crashes {
        if confirmed >= 3 {
            c.note(format!("C01 {}: further abnormal worker end ({}) in partition {:?} (not re-run)", what, cr.how, cr.last_part));
            continue;
        }
        confirmed += 1;
        let part = match cr.last_part {
            Some(p) => p,
            None => {
                c.crash(format!("C01 {} worker {} ended abnormally ({}) outside any partition", what, cr.child, cr.how));
                continue;
            }
        };
        let prog = format!("{}/target/mc-tmp/case-{}-{}", std::env::var("VERIF_DIR").unwrap_or_else(|_| "/verif".into()), std::process::id(), part);
        let _ = std::fs::create_dir_all(std::path::Path::new(&prog).parent().unwrap());
        std::env::set_var("VERIF_CASE_PROGRESS", &prog);
        let scratch = Collector::new("C01", &c.tier);
        let again = fork_map(&scratch, 1, timeout, |_, cc| f(part, cc));
        std::env::remove_var("VERIF_CASE_PROGRESS");
        let case = std::fs::read_to_string(&prog).unwrap_or_default().trim().to_string();
        let _ = std::fs::remove_file(&prog);
        if let Some(a) = again.first() {
            c.violation(Violation {
                property: "C01".into(),
                engine: format!("E5.{}", what),
                sig: format!("worker-abnormal-end|{}", if a.how.contains("timeout") { "hang (watchdog)".to_string() } else { a.how.clone() }),
                columns: 0,
                lines: 0,
                script: vec![],
                op: None,
                detail: format!(
                    "worker process ended abnormally twice ({}; then {}) in {} partition {}; case running at the time: {}",
                    cr.how, a.how, what, part, case
                ),
                extra: json!({"partition": part, "engine_part": what, "case": case, "first": cr.how, "second": a.how}),
            });
        } else {
            c.crash(format!("C01 {} worker {} ended abnormally ({}) in partition {} but the partition ran to completion when repeated alone", what, cr.child, cr.how, part));
        }
    }
}

pub fn c01(c: &Collector, g: &mut Guard) {
    let timeout = Duration::from_secs(if c.thorough() { 3600 } else { 150 });
    let thorough = c.thorough();
    // ---------------------------------------------------------------- (i) E1 words on real screens
    let a = alphabet_a();
    let n0 = if thorough { 3 } else { 2 };
    let geoms_small: Vec<(u32, u32)> = vec![(1, 1), (3, 1), (5, 3)];
    fork_map_c01(c, "words", a.len(), timeout, |part, cc| {
        let mut pr = Progress::new();
        let mut outcomes = HashSet::new();
        let mut n = 0u64;
        let mut stack = vec![a[part].to_string()];
        while let Some(w) = stack.pop() {
            for &(cols, lines) in &geoms_small {
                for utf8 in [true, false] {
                    pr.case(|| format!("chars {}x{} utf8={} {}", cols, lines, utf8, esc(&w)));
                    char_case(cc, cols, lines, &[w.clone()], utf8, "E5.words", &mut outcomes);
                    n += 1;
                }
                // the same word as bytes, single feed and every 2-way cut
                for chunks in two_way_cuts(w.as_bytes()) {
                    pr.case(|| format!("bytes {}x{} {}", cols, lines, hex(w.as_bytes())));
                    stream_case(cc, cols, lines, &chunks, true, "E5.words.bytes", &mut outcomes);
                    n += 1;
                }
            }
            // empty feed() calls around and inside the word (chars and bytes)
            {
                let chars: Vec<char> = w.chars().collect();
                let cut = chars.len() / 2;
                let (a1, a2): (String, String) = (chars[..cut].iter().collect(), chars[cut..].iter().collect());
                for chunks in [vec![String::new(), w.clone()], vec![w.clone(), String::new()], vec![a1.clone(), String::new(), a2.clone()]] {
                    pr.case(|| format!("chars 5x3 empty chunk {}", esc(&w)));
                    char_case(cc, 5, 3, &chunks, true, "E5.words.empty-chunks", &mut outcomes);
                    let bch: Vec<Vec<u8>> = chunks.iter().map(|x| x.as_bytes().to_vec()).collect();
                    stream_case(cc, 5, 3, &bch, true, "E5.words.empty-chunks", &mut outcomes);
                    n += 2;
                }
            }
            if w.chars().count() == 1 {
                for &(cols, lines) in &[(80u32, 24u32), (140, 40)] {
                    stream_case(cc, cols, lines, &[w.as_bytes().to_vec()], true, "E5.words.bytes", &mut outcomes);
                    n += 1;
                }
            }
            if w.chars().count() < n0 {
                for ch in &a {
                    let mut w2 = w.clone();
                    w2.push(*ch);
                    stack.push(w2);
                }
            }
        }
        cc.add_transitions(n);
        cc.count("oracle_checks", n);
        cc.count("word_cases", n);
        cc.outcomes(&outcomes);
    });
    // ---------------------------------------------------------------- (i-b) string-sequence shapes (OSC with and without separator, multi-byte right after the code)
    let osc_syms: Vec<&str> = vec!["a", ";", "\u{e9}", "\u{30a2}", "\\", "\x1bq", " "];
    fork_map_c01(c, "osc-shapes", osc_syms.len(), timeout, |part, cc| {
        let mut pr = Progress::new();
        let mut outcomes = HashSet::new();
        let mut n = 0u64;
        let mut payloads: Vec<String> = vec![String::new(), osc_syms[part].to_string()];
        for s2 in &osc_syms {
            payloads.push(format!("{}{}", osc_syms[part], s2));
            if thorough {
                for s3 in &osc_syms {
                    payloads.push(format!("{}{}{}", osc_syms[part], s2, s3));
                }
            }
        }
        for p in &payloads {
            for intro in ["\x1b]", "\u{9d}"] {
                for code in ["0", "2", "\u{e9}", ";", "", "52"] {
                    for term in ["\x07", "\u{9c}", "\x1b\\", ""] {
                        let w = format!("{}{}{}{}", intro, code, p, term);
                        pr.case(|| format!("osc-shape {}", esc(&w)));
                        char_case(cc, 5, 3, &[w.clone()], true, "E5.osc-shapes", &mut outcomes);
                        n += 1;
                        for chunks in two_way_cuts(w.as_bytes()) {
                            stream_case(cc, 5, 3, &chunks, true, "E5.osc-shapes", &mut outcomes);
                            n += 1;
                        }
                    }
                }
            }
        }
        cc.add_transitions(n);
        cc.count("oracle_checks", n);
        cc.count("osc_shape_cases", n);
        cc.outcomes(&outcomes);
    });
    // ---------------------------------------------------------------- (i-c) long inputs
    let big = |n: &str| n.ends_with("300000") || n.ends_with("200000");
    let longs: Vec<(String, String)> = crate::props3::long_streams().into_iter().filter(|(n, _)| thorough || !big(n)).collect();
    let longb: Vec<(String, Vec<u8>)> = crate::props3::long_byte_streams().into_iter().filter(|(n, _)| thorough || !big(n)).collect();
    fork_map_c01(c, "long", 16, timeout, |part, cc| {
        let mut outcomes = HashSet::new();
        let mut n = 0u64;
        let mut all: Vec<Vec<u8>> = longs.iter().map(|(_, t)| t.as_bytes().to_vec()).collect();
        all.extend(longb.iter().map(|(_, b)| b.clone()));
        for (i, bytes) in all.iter().enumerate() {
            if i % 16 != part {
                continue;
            }
            for &(cols, lines) in &[(5u32, 3u32), (80, 24), (300, 3)] {
                for utf8 in [true, false] {
                    stream_case(cc, cols, lines, &[bytes.clone()], utf8, "E5.long", &mut outcomes);
                    n += 1;
                }
                let chunks: Vec<Vec<u8>> = bytes.chunks(1000).map(|x| x.to_vec()).collect();
                stream_case(cc, cols, lines, &chunks, true, "E5.long", &mut outcomes);
                n += 1;
            }
        }
        cc.add_transitions(n);
        cc.count("oracle_checks", n);
        cc.count("long_cases", n);
        cc.outcomes(&outcomes);
    });
    // ---------------------------------------------------------------- (ii) E3 byte strings, all chunkings
    let b = byte_alphabet();
    let nb = if thorough { 4 } else { 3 };
    fork_map_c01(c, "bytes", b.len(), timeout, |part, cc| {
        let mut pr = Progress::new();
        let mut outcomes = HashSet::new();
        let mut n = 0u64;
        let mut stack: Vec<Vec<u8>> = vec![vec![b[part]]];
        while let Some(w) = stack.pop() {
            let n_ = w.len();
            for mask in 0u32..(1 << (n_ - 1)) {
                let mut chunks = Vec::new();
                let mut cur = vec![w[0]];
                for i in 1..n_ {
                    if mask & (1 << (i - 1)) != 0 {
                        chunks.push(std::mem::take(&mut cur));
                    }
                    cur.push(w[i]);
                }
                chunks.push(cur);
                for &(cols, lines) in &[(1u32, 1u32), (5, 3)] {
                    pr.case(|| format!("bytes {}x{} {}", cols, lines, chunks.iter().map(|x| hex(x)).collect::<Vec<_>>().join("|")));
                    stream_case(cc, cols, lines, &chunks, true, "E5.bytes", &mut outcomes);
                    n += 1;
                }
                if mask == 0 {
                    stream_case(cc, 3, 2, &chunks, false, "E5.bytes", &mut outcomes);
                    n += 1;
                }
                // a feed() may be empty: before, between and after the non-empty ones
                if chunks.len() <= 2 {
                    for pos in 0..=chunks.len() {
                        let mut ce = chunks.clone();
                        ce.insert(pos, vec![]);
                        pr.case(|| format!("bytes 5x3 (empty chunk at {}) {}", pos, ce.iter().map(|x| hex(x)).collect::<Vec<_>>().join("|")));
                        stream_case(cc, 5, 3, &ce, true, "E5.bytes.empty-chunks", &mut outcomes);
                        n += 1;
                    }
                }
            }
            if w.len() < nb {
                for x in &b {
                    let mut w2 = w.clone();
                    w2.push(*x);
                    stack.push(w2);
                }
            }
        }
        // every single byte, both modes, larger screens
        if part == 0 {
            for x in 0..=255u8 {
                for utf8 in [true, false] {
                    stream_case(cc, 80, 24, &[vec![x]], utf8, "E5.bytes", &mut outcomes);
                    stream_case(cc, 2, 2, &[vec![0x1b], vec![x]], utf8, "E5.bytes", &mut outcomes);
                    stream_case(cc, 2, 2, &[vec![0x1b, b'['], vec![x]], utf8, "E5.bytes", &mut outcomes);
                    stream_case(cc, 2, 2, &[vec![0x1b, b']'], vec![x, 7]], utf8, "E5.bytes", &mut outcomes);
                    n += 4;
                }
            }
        }
        cc.add_transitions(n);
        cc.count("oracle_checks", n);
        cc.count("byte_cases", n);
        cc.outcomes(&outcomes);
    });
    // ---------------------------------------------------------------- (iii-b) macro-words through the byte parser
    let macros = macro_alphabet();
    let extra_macros: Vec<String> = {
        let mut v: Vec<String> = macros.iter().map(|s| s.to_string()).collect();
        for f in "@ABCDEFGHJKLMPXacdefghlmr".chars() {
            for p in ["", "0", "2", "9999"] {
                v.push(format!("\x1b[{}{}", p, f));
            }
        }
        for s in ["\x1b[?3l", "\x1b[?5l", "\x1b[?6l", "\x1b[?7h", "\x1b[?25h", "\x1b[4l", "\x1b[20l", "\x1b[9999;9999H", "\x1b[0;0r", "\x1b[1;1r", "\x1b[3;1r"] {
            v.push(s.to_string());
        }
        v.sort();
        v.dedup();
        v
    };
    let core: Vec<usize> = (0..extra_macros.len()).filter(|i| i % 4 == 0).collect();
    let mlen = if thorough { 3 } else { 2 };
    c.bound("macro_alphabet_size", json!(extra_macros.len()));
    c.bound("macro_word_length", json!(format!("{} over the full macro alphabet, {} over every 4th symbol", mlen, mlen + 1)));
    let nm = extra_macros.len();
    fork_map_c01(c, "macro", nm, timeout, |part, cc| {
        let mut pr = Progress::new();
        let mut outcomes = HashSet::new();
        let mut n = 0u64;
        let mut stack = vec![vec![part]];
        while let Some(w) = stack.pop() {
            let text: String = w.iter().map(|i| extra_macros[*i].as_str()).collect::<Vec<_>>().join("");
            for &(cols, lines) in &[(3u32, 2u32), (5, 3)] {
                pr.case(|| format!("macro {}x{} {}", cols, lines, esc(&text)));
                stream_case(cc, cols, lines, &[text.as_bytes().to_vec()], true, "E5.macro", &mut outcomes);
                n += 1;
            }
            if w.len() == 1 {
                for &(cols, lines) in &[(1u32, 1u32), (80, 24), (140, 40)] {
                    stream_case(cc, cols, lines, &[text.as_bytes().to_vec()], true, "E5.macro", &mut outcomes);
                    n += 1;
                }
            }
            let full_ok = w.len() < mlen;
            let core_ok = w.len() < mlen + 1 && w.iter().all(|i| i % 4 == 0);
            if full_ok {
                for i in 0..nm {
                    let mut w2 = w.clone();
                    w2.push(i);
                    stack.push(w2);
                }
            } else if core_ok {
                for i in &core {
                    let mut w2 = w.clone();
                    w2.push(*i);
                    stack.push(w2);
                }
            }
        }
        cc.add_transitions(n);
        cc.count("oracle_checks", n);
        cc.count("macro_cases", n);
        cc.outcomes(&outcomes);
    });
    // ---------------------------------------------------------------- (iii) API: wide parameter domain, depth 1
    let gs: Vec<(u32, u32)> = if thorough { vec![(1, 1), (2, 1), (1, 2), (3, 2), (5, 3), (80, 24)] } else { vec![(1, 1), (3, 2), (5, 3)] };
    let spec = Spec {
        geoms: gs.clone(),
        fills: vec![Fill::F0, Fill::F1, Fill::F3, Fill::F7],
        cursors: CursorSel::All,
        regions: RegionSel::Some,
        modesets: vec![0, M_IRM | M_DECOM, M_DECAWM_OFF | M_DECSCNM | M_LNM, M_IRM | M_DECAWM_OFF],
        renditions: vec![vec![]],
        stacks: vec![0, 1],
        charsets: default_charsets(),
        hidden_cursor: false,
    };
    // every cursor position on the small screens, the corners on the large ones
    let mut bases = {
        let mut small = spec.clone();
        small.geoms = spec.geoms.iter().cloned().filter(|g| g.0 <= 5).collect();
        gen_bases(c, &small)
    };
    {
        let mut big = spec.clone();
        big.geoms = spec.geoms.iter().cloned().filter(|g| g.0 > 5).collect();
        big.cursors = CursorSel::Corners;
        if !big.geoms.is_empty() {
            bases.extend(gen_bases(c, &big));
        }
    }
    // seed scripts themselves must not panic
    if c.counter("seed_scripts_panicked") > 0 {
        c.violation(Violation {
            property: "C01".into(),
            engine: "E5.seeds".into(),
            sig: "seed-script|panic".into(),
            columns: 0,
            lines: 0,
            script: vec![],
            op: None,
            detail: "a seed script of public API calls panicked (see evidence notes)".into(),
            extra: json!({}),
        });
    }
    let wide_small: Vec<P> = {
        let mut v: Vec<P> = vec![None];
        v.extend((0..=64).map(Some));
        v.extend([80, 81, 131, 132, 133, 255, 256, 1000, 4999, 9998, 9999].iter().map(|x| Some(*x)));
        v
    };
    let wide_full: Vec<P> = {
        let mut v: Vec<P> = vec![None];
        v.extend((0..=9999).map(Some));
        v
    };
    let wb: Vec<Base> = bases.iter().step_by(if thorough { 3 } else { 5 }).cloned().collect();
    c.count("wide_param_bases", wb.len() as u64);
    sweep(
        c,
        &wb,
        |b| {
            let mut v = Vec::new();
            // the complete domain {absent} U 0..=9999 on the small geometries (thorough); the large
            // screens cost about 50x more per transition and get the boundary-value domain
            let wide = if thorough && b.columns <= 5 { &wide_full } else { &wide_small };
            for p in wide {
                for mk in [
                    Op::Ich as fn(P) -> Op,
                    Op::Cuu,
                    Op::Cud,
                    Op::Cuf,
                    Op::Cub,
                    Op::Cnl,
                    Op::Cpl,
                    Op::Cha,
                    Op::Ed,
                    Op::El,
                    Op::Il,
                    Op::Dl,
                    Op::Dch,
                    Op::Ech,
                    Op::Da,
                    Op::Vpa,
                    Op::Tbc,
                ] {
                    v.push(mk(*p));
                }
                v.push(Op::Cup(*p, Some(1)));
                v.push(Op::Cup(Some(1), *p));
                v.push(Op::SetMargins(*p, None));
                v.push(Op::SetMargins(Some(1), *p));
                if let Some(n) = p {
                    v.push(Op::Sm(vec![*n], true));
                    v.push(Op::Rm(vec![*n], false));
                    v.push(Op::Sgr(vec![*n]));
                    v.push(Op::Sgr(vec![38, 5, *n]));
                    v.push(Op::Sgr(vec![48, 2, *n, *n, *n]));
                }
            }
            v
        },
        |c, t, local| {
            local.count("wide_param_transitions");
            c01_api_judge(c, t, "E5.api.wide", local);
        },
    );
    // the complete alphabet (P(g) parameters, every text) from every small base state
    let fb: Vec<Base> = bases.iter().filter(|b| b.columns <= 5).cloned().collect();
    sweep(
        c,
        &fb,
        |b| full_alphabet(b.columns, b.lines),
        |c, t, local| {
            local.count("full_alphabet_transitions");
            c01_api_judge(c, t, "E5.api.full", local);
        },
    );
    // resize to any size >= 1x1 (up to 140x40) from the bases
    sweep(
        c,
        &wb,
        |_| {
            let mut v = Vec::new();
            for l in [1u32, 2, 3, 4, 23, 24, 25, 40] {
                for cc in [1u32, 2, 3, 5, 79, 80, 81, 132, 140] {
                    v.push(Op::Resize(Some(l), Some(cc)));
                }
            }
            v
        },
        |c, t, local| {
            local.count("resize_transitions");
            c01_api_judge(c, t, "E5.api.resize", local);
        },
    );
    // resize with BOTH dimensions large (the cell count does not fit 32 bits); the grid is never
    // rendered here (4.9e9 cells), so only: no panic, a draw and cursor motion still work, and after
    // shrinking back display() returns
    {
        let sizes: Vec<(u32, u32)> = vec![(65536, 65536), (70000, 70000), (65535, 65537), (46341, 46341), (100000, 50000), (9999, 429497), (5, 1000000)];
        let hb: Vec<Base> = wb.iter().step_by((wb.len() / 3).max(1)).take(3).cloned().collect();
        let t0 = std::time::Instant::now();
        // Only a panic is a verdict here. A worker that runs out of memory or time on such a size
        // says nothing: an implementation with a dense buffer, or one whose resize is linear in
        // the width, is entitled to need the memory. Those cases are recorded as inconclusive.
        let huge_timeout = Duration::from_secs(if thorough { 300 } else { 40 });
        let inconclusive = fork_map(c, hb.len() * sizes.len(), huge_timeout, |i, cc| {
            let b = &hb[i / sizes.len()];
            let (l, w) = sizes[i % sizes.len()];
            cc.add_transitions(1);
            cc.count("oracle_checks", 1);
            huge_resize_case(cc, b.columns, b.lines, &b.script, l, w, "E5.api.resize-huge");
            cc.count("huge_resize_cases", 1);
            if std::env::var("VERIF_VERBOSE").is_ok() {
                eprintln!("[huge-resize] {}x{} done at {:.1}s", l, w, t0.elapsed().as_secs_f64());
            }
        });
        if !inconclusive.is_empty() {
            c.count("huge_resize_inconclusive_workers", inconclusive.len() as u64);
            c.note(format!("E5.api.resize-huge: {} worker(s) ended abnormally (memory / time) and their cases are inconclusive, e.g. {}", inconclusive.len(), inconclusive[0].how));
        }
    }
    // columns at the top of the u32 range ("resize() to any size of at least 1x1"): the cursor is taken
    // to the last column with HT and every operation whose cost does not depend on the width is
    // applied there (x + n must not wrap). Line counts of that size are not explored: the dirty set
    // is extensional (C16 / C17 want every row index in it), so memory grows with `lines` by design.
    {
        let widths: Vec<u32> = vec![u32::MAX, u32::MAX - 1, u32::MAX - 2, u32::MAX - 9998, u32::MAX - 9999, u32::MAX - 10000, 1 << 31, (1 << 31) + 1, (1 << 31) - 1];
        let eops = edge_ops();
        let huge_timeout = Duration::from_secs(if thorough { 300 } else { 40 });
        let inconclusive = fork_map(c, widths.len() * eops.len(), huge_timeout, |i, cc| {
            cc.add_transitions(1);
            cc.count("oracle_checks", 1);
            max_width_case(cc, widths[i / eops.len()], i % eops.len(), "E5.api.max-width");
            cc.count("max_width_cases", 1);
        });
        if !inconclusive.is_empty() {
            c.count("max_width_inconclusive_workers", inconclusive.len() as u64);
            c.note(format!("E5.api.max-width: {} worker(s) ended abnormally (memory / time) and their cases are inconclusive, e.g. {}", inconclusive.len(), inconclusive[0].how));
        }
    }
    // the environment answers too: writes to stdout fail (closed pipe). Diagnostics printed for
    // unrecognised sequences must not take the parser down.
    {
        let mut words: Vec<String> = Vec::new();
        for f in 0x20u8..0x7f {
            words.push(format!("\x1b{}", f as char));
            words.push(format!("\x1b[{}", f as char));
            words.push(format!("\x1b[5;7{}", f as char));
            words.push(format!("\x1b#{}", f as char));
            words.push(format!("\x1b%{}", f as char));
        }
        for m in macro_alphabet() {
            words.push(m.to_string());
        }
        let nparts = 8usize;
        fork_map_c01(c, "stdout-broken", nparts, timeout, |part, cc| {
            break_stdout();
            let mut o = HashSet::new();
            for (i, w) in words.iter().enumerate() {
                if i % nparts != part {
                    continue;
                }
                for utf8 in [true, false] {
                    cc.add_transitions(1);
                    cc.count("oracle_checks", 1);
                    char_case(cc, 5, 3, &[w.clone()], utf8, "E5.stdout-broken", &mut o);
                    cc.count("stdout_broken_cases", 1);
                }
            }
        });
    }
    // ---------------------------------------------------------------- API sequences, depth k, display interleaved
    let depth = if thorough { 3 } else { 2 };
    let bfs_geoms: Vec<((u32, u32), usize)> = if thorough { vec![((1, 1), 3), ((2, 1), 3), ((1, 2), 3), ((3, 2), 2)] } else { vec![((1, 1), 2), ((3, 2), 2)] };
    // Each search runs in its own forked worker (which may use threads): a hang or an abort of
    // the subject inside the search ends that worker, and the parent turns it into the verdict.
    let bfs_timeout = Duration::from_secs(if thorough { 3 * 3600 } else { 900 });
    fork_map_c01(c, "api.bfs", bfs_geoms.len(), bfs_timeout, |i, cc| {
        let (gg, depth) = bfs_geoms[i];
        let sspec = Spec {
            geoms: vec![gg],
            fills: vec![Fill::F0, Fill::F1],
            cursors: CursorSel::Home,
            regions: RegionSel::NoRegion,
            modesets: vec![0],
            renditions: vec![vec![]],
            stacks: vec![0],
            charsets: default_charsets(),
            hidden_cursor: false,
        };
        let seeds = gen_bases(cc, &sspec);
        let st = bfs(
            cc,
            &seeds,
            depth,
            4_000_000,
            |s| full_alphabet(s.columns.min(6), s.lines.min(5)),
            |c, t, local| {
                local.count("api_sequence_transitions");
                c01_api_judge(c, t, "E5.api.bfs", local)
            },
        );
        cc.bound(&format!("api_bfs_levels_{}x{}", gg.0, gg.1), json!(st.levels));
    });
    // ---------------------------------------------------------------- (iv) captured sessions
    c01_sessions(c, timeout);
    c.bound("geometries_api", json!(gs));
    c.bound("word_cube_length", json!(n0));
    c.bound("byte_cube_length", json!(nb));
    c.bound("api_sequence_depth", json!(depth));
    c.bound("wide_parameter_domain", json!(if thorough { "{absent} U 0..=9999 on geometries up to 5x3; boundary set on 80x24" } else { "{absent} U 0..=64 U {80,81,131,132,133,255,256,1000,4999,9998,9999}" }));
    c.bound("follow_up", json!(esc(&format!("{}\x1bcx", FLUSH))));
    c.sample(json!({"case": "chars 5x3 utf8", "input": esc("\x1b[3K"), "then": ["display()", esc(FLUSH), esc("\x1bcx"), "display()", "cell(0,0)=='x'"]}));
    c.sample(json!({"case": "bytes 1x1 utf8", "chunks": ["e2 9e", "9c"], "then": "display() after every chunk, follow-up as above"}));
    c.sample(json!({"case": "api 3x2", "op": "insert_characters(9999) from a never-written row", "then": ["display()", "draw(x)"]}));
    g.need(c, "word_cases");
    g.need(c, "byte_cases");
    g.need(c, "osc_shape_cases");
    g.need(c, "long_cases");
    g.need(c, "macro_cases");
    g.need(c, "wide_param_transitions");
    g.need(c, "resize_transitions");
    g.need(c, "stdout_broken_cases");
    g.need(c, "api_sequence_transitions");
    g.need(c, "session_cases");
}

/// Point fd 1 at the write end of a pipe whose read end is closed: every write to stdout fails
/// with EPIPE from now on (SIGPIPE is ignored by the Rust runtime). Only called in forked workers.
pub fn break_stdout() {
    unsafe {
        let mut fds = [0i32; 2];
        if libc::pipe(fds.as_mut_ptr()) == 0 {
            libc::close(fds[0]);
            libc::dup2(fds[1], 1);
            libc::close(fds[1]);
        }
        libc::signal(libc::SIGPIPE, libc::SIG_IGN);
    }
}

/// Operations whose cost does not depend on the screen width when the cursor is in the last column.
pub fn edge_ops() -> Vec<(&'static str, Vec<Op>)> {
    let mut v: Vec<(&'static str, Vec<Op>)> = Vec::new();
    for n in [None, Some(1), Some(2), Some(9998), Some(9999)] {
        v.push(("cuf", vec![Op::Cuf(n)]));
        v.push(("ich", vec![Op::Ich(n)]));
        v.push(("dch", vec![Op::Dch(n)]));
        v.push(("ech", vec![Op::Ech(n)]));
        v.push(("cub-cuf", vec![Op::Cub(n), Op::Cuf(n), Op::Cuf(n)]));
        v.push(("cha", vec![Op::Cha(n)]));
        v.push(("cup", vec![Op::Cup(n, n)]));
    }
    v.push(("draw", vec![Op::Draw("a".into())]));
    v.push(("draw-wide", vec![Op::Draw("\u{30a2}".into())]));
    v.push(("draw-mark", vec![Op::Draw("a\u{301}".into())]));
    v.push(("draw-noawm", vec![Op::Rm(vec![7], true), Op::Draw("ab\u{30a2}".into())]));
    v.push(("irm-draw", vec![Op::Sm(vec![4], false), Op::Draw("a".into())]));
    v.push(("tab", vec![Op::Tab, Op::Tab]));
    v.push(("hts-tab", vec![Op::SetTabStop, Op::Backspace, Op::Tab]));
    v.push(("el0", vec![Op::El(Some(0))]));
    v.push(("save-restore", vec![Op::SaveCursor, Op::Cub(Some(5)), Op::RestoreCursor]));
    v.push(("bs-cr", vec![Op::Backspace, Op::CarriageReturn]));
    v.push(("pending-save-restore", vec![Op::Draw("a".into()), Op::SaveCursor, Op::RestoreCursor, Op::Cuf(Some(3))]));
    v
}

pub fn max_width_case(c: &Collector, w: u32, k: usize, engine: &str) {
    let eops = edge_ops();
    let (name, ops) = &eops[k];
    let mut s = Screen::new(1, 1);
    let mut steps = vec![Op::Resize(None, Some(w)), Op::Tab];
    steps.extend(ops.iter().cloned());
    steps.push(Op::Resize(Some(2), Some(3)));
    steps.push(Op::Display);
    steps.push(Op::Draw("z".into()));
    let mut done: Vec<Op> = Vec::new();
    for op in steps {
        if let Err(m) = apply(&mut s, &op) {
            c.violation(Violation {
                property: "C01".into(),
                engine: engine.into(),
                sig: format!("{}|panic:{}|max-width", op.name(), panic_class(&m)),
                columns: 1,
                lines: 1,
                script: done.clone(),
                op: Some(op.clone()),
                detail: format!("on a screen {} columns wide with the cursor in the last column ({}): {} panicked: {}", w, name, op.short(), m),
                extra: json!({"max_width": w, "edge_op": k}),
            });
            return;
        }
        if s.cursor.x > s.columns || s.cursor.y >= s.lines {
            c.violation(Violation {
                property: "C01".into(),
                engine: engine.into(),
                sig: format!("{}|cursor-out-of-bounds|max-width", op.name()),
                columns: 1,
                lines: 1,
                script: done.clone(),
                op: Some(op.clone()),
                detail: format!("on a screen {} columns wide ({}): after {} the cursor is at ({}, {})", w, name, op.short(), s.cursor.x, s.cursor.y),
                extra: json!({"max_width": w, "edge_op": k}),
            });
            return;
        }
        done.push(op);
    }
}

/// resize(l, w) with both dimensions large, then operations that do not materialise the grid,
/// then a shrink and display(). Every step must return.
pub fn huge_resize_case(c: &Collector, columns: u32, lines: u32, script: &[Op], l: u32, w: u32, engine: &str) {
    let mut s = match build(columns, lines, script) {
        Ok(s) => s,
        Err(_) => return,
    };
    let steps = vec![
        Op::Resize(Some(l), Some(w)),
        Op::Draw("x".into()),
        Op::Cup(Some(9999), Some(9999)),
        Op::Draw("y".into()),
        Op::Ech(Some(9999)),
        Op::Linefeed,
        Op::Resize(Some(2), Some(3)),
        Op::Display,
        Op::Draw("z".into()),
    ];
    let mut done: Vec<Op> = script.to_vec();
    for op in steps {
        if let Err(m) = apply(&mut s, &op) {
            c.violation(Violation {
                property: "C01".into(),
                engine: engine.into(),
                sig: format!("{}|panic:{}|huge", op.name(), panic_class(&m)),
                columns,
                lines,
                script: done.clone(),
                op: Some(op.clone()),
                detail: format!("after resize({}, {}): {} panicked: {}", l, w, op.short(), m),
                extra: json!({"huge_resize": [l, w]}),
            });
            return;
        }
        done.push(op);
    }
}

pub fn c01_api_judge(c: &Collector, t: &crate::explore::Trans, engine: &str, local: &mut crate::explore::Local) -> bool {
    local.count("oracle_checks");
    match t.outcome {
        Err(m) => {
            c.violation(mk_violation("C01", engine, t, &format!("panic:{}", panic_class(m)), format!("panicked: {}", m), json!({})));
            false
        }
        Ok((s, _, _)) => {
            let wf = wellformed(s);
            if !wf.is_empty() {
                // reported by C09; not expanded
                return false;
            }
            // display() still returns and further input is still processed
            let mut s2 = s.clone();
            match apply(&mut s2, &Op::Display) {
                Err(m) => {
                    c.violation(mk_violation("C01", engine, t, &format!("display-after|panic:{}", panic_class(&m)), format!("display() after the operation panicked: {}", m), json!({})));
                    return false;
                }
                Ok(_) => {}
            }
            if let Err(m) = apply(&mut s2, &Op::Draw("x".into())) {
                c.violation(mk_violation("C01", engine, t, &format!("draw-after|panic:{}", panic_class(&m)), format!("draw(x) after the operation panicked: {}", m), json!({})));
                return false;
            }
            true
        }
    }
}

fn c01_sessions(c: &Collector, timeout: Duration) {
    let names = session_names();
    let thorough = c.thorough();
    let mut datas = Vec::new();
    for n in &names {
        let p = format!("{}/assets/captured/{}.input", std::env::var("VERIF_REPO").unwrap_or_else(|_| "/repo".into()), n);
        match std::fs::read(&p) {
            Ok(d) => datas.push(d),
            Err(e) => {
                c.crash(format!("cannot read captured session {}: {}", p, e));
                return;
            }
        }
    }
    let geoms: Vec<(u32, u32)> = vec![(80, 24), (140, 40), (10, 5), (1, 1)];
    let jobs: Vec<(usize, usize)> = (0..names.len()).flat_map(|i| (0..geoms.len()).map(move |g| (i, g))).collect();
    fork_map_c01(c, "sessions", jobs.len(), timeout, |part, cc| {
        let (si, gi) = jobs[part];
        let d = &datas[si];
        let (cols, lines) = geoms[gi];
        let mut n = 0u64;
        let mk = |class: String, detail: String| Violation {
            property: "C01".into(),
            engine: "E5.sessions".into(),
            sig: class,
            columns: cols,
            lines,
            script: vec![],
            op: None,
            detail,
            extra: json!({"session": names[si]}),
        };
        // whole, 7-byte chunks with display() after each, byte-at-a-time (short sessions / thorough)
        let mut modes: Vec<usize> = vec![0, 7];
        if d.len() < 5000 || thorough {
            modes.push(1);
        }
        for m in modes {
            n += 1;
            let r = guarded(|| {
                let arc = Arc::new(Mutex::new(Screen::new(cols, lines)));
                {
                    let mut p = ByteParser::new(arc.clone());
                    if m == 0 {
                        p.feed(d);
                    } else {
                        for ch in d.chunks(m) {
                            p.feed(ch);
                            if m == 7 {
                                match arc.try_lock() {
                                    Ok(mut g) => {
                                        let _ = g.display();
                                    }
                                    Err(std::sync::TryLockError::WouldBlock) => panic!("listener mutex is still locked after feed() returned (any further access to the screen would block forever)"),
                                    Err(std::sync::TryLockError::Poisoned(e)) => {
                                        let _ = e.into_inner().display();
                                    }
                                }
                            }
                        }
                    }
                    // DECCOLM switch and back, then resizes
                    p.feed(b"\x18\x1b[?3h");
                    if arc.try_lock().is_err() {
                        panic!("listener mutex is still locked after feed() returned");
                    }
                    let _ = arc.lock().unwrap().display();
                    p.feed(&d[..d.len().min(2000)]);
                    p.feed(b"\x1b[?3l");
                }
                let mut s = arc.lock().unwrap();
                let _ = s.display();
                for (l2, c2) in [(1u32, 1u32), (2, 2), (lines - 1 + (lines == 1) as u32, cols), (lines + 1, cols + 1), (lines, 1), (1, cols)] {
                    s.resize(Some(l2), Some(c2));
                    let dd = s.display();
                    assert_eq!(dd.len() as u32, s.lines, "display rows");
                    s.draw("x");
                }
                wellformed(&s)
            });
            match r {
                Err(m2) => cc.violation(mk(format!("session|panic:{}", panic_class(&m2)), format!("session {} on {}x{} (chunk mode {}): {}", names[si], cols, lines, m, m2))),
                Ok(wf) => {
                    if !wf.is_empty() {
                        cc.violation(mk("session|illformed".into(), format!("session {} on {}x{}: {}", names[si], cols, lines, wf.join("; "))));
                    }
                }
            }
        }
        cc.add_transitions(n);
        cc.count("oracle_checks", n);
        cc.count("session_cases", n);
    });
}
