macro_rules! out {
    ($($arg:tt)*) => { $crate::outln(&format!($($arg)*)) };
}

mod explore;
mod isolate;
mod judge;
mod ops;
mod props;
mod props2;
mod props3;
mod props4;
mod recog;
mod refscreen;
mod replay;
mod report;
mod seeds;
mod snapshot;
mod tables;
mod utf8ref;

use report::Collector;

fn verif_dir() -> String {
    std::env::var("VERIF_DIR").unwrap_or_else(|_| "/verif".to_string())
}

fn silence_stdout_of_subject() {
    // memterm prints diagnostics ("unexpected csi escape code ..") on stdout.
    // We keep our own copy of the real stdout and point fd 1 at /dev/null.
    unsafe {
        let saved = libc::dup(1);
        let devnull = libc::open(b"/dev/null\0".as_ptr() as *const libc::c_char, libc::O_WRONLY);
        if saved >= 0 && devnull >= 0 {
            libc::dup2(devnull, 1);
            libc::close(devnull);
            OUT_FD = saved;
        }
    }
}

static mut OUT_FD: i32 = 1;

/// Print a line on the real stdout.
pub fn outln(s: &str) {
    let mut line = s.to_string();
    line.push('\n');
    unsafe {
        let fd = OUT_FD;
        let b = line.as_bytes();
        let mut off = 0;
        while off < b.len() {
            let n = libc::write(fd, b[off..].as_ptr() as *const libc::c_void, b.len() - off);
            if n <= 0 {
                break;
            }
            off += n as usize;
        }
    }
}


const A_UNI: &str = "unicode-width / unicode-normalization tables are trusted (shared with the subject)";
const A_BOUND: &str = "bounded geometries / depths / alphabets as listed under coverage.bounds";
const A_HASH: &str = "HashMap iteration order is not controlled (observations are canonicalised)";

fn run_body(prop: &str, c: &Collector, g: &mut props::Guard) -> Option<(&'static str, Vec<&'static str>, bool)> {
    Some(match prop {
        "C01" => {
            props4::c01(c, g);
            ("E5: all words over the grammar alphabet / all byte strings over the UTF-8 class alphabet up to the bound (all chunkings), macro-words of complete control functions, every listener method with every parameter in the wide domain, resize to sizes up to 140x40, API sequences by BFS over the full alphabet, captured sessions on several geometries incl. the DECCOLM switch; oracle: returned normally (no panic in an overflow-checked build, no abnormal worker end, no watchdog expiry), display() returns `lines` rows, and after a flush the follow-up ESC c x is visible", vec![A_BOUND, "worker aborts / hangs are detected per partition by the parent process (wall-clock cap)"], true)
        }
        "C02" => {
            props3::c02(c, g);
            ("E1/E3: every enumerated char word, macro-word and byte string is fed once whole and once under every partition into chunks (all 2^(n-1) for n<=8, else all 2-way cuts + one-at-a-time, plus empty chunks); oracle: snapshot(single feed) == snapshot(chunked), implementation vs implementation; captured sessions at every (or every k-th, stated) 2-way cut. states = streams, transitions = chunked runs, distinct_nontrivial = distinct final states", vec![A_BOUND, A_HASH], true)
        }
        "C03" => {
            props3::c03(c, g);
            ("E1: all strings over the grammar-class alphabet up to the cube length, ground-pruned continuation with the reduced alphabet, digit-run / parameter-list / OSC families; each word + probe suffix is fed to a fresh real Parser with a recording listener and its events compared with the explicit-state reference recogniser; states = words, distinct_nontrivial = distinct event lists", vec![A_BOUND, "declared don't-cares D8, D10"], true)
        }
        "C04" => {
            props::c04(c, g);
            ("E2: every (reachable base state x draw text) transition of the real Screen, plus BFS over draw/motion/mode histories with full-key dedup; each transition refined against the reference model from alpha(pre). distinct_nontrivial = distinct post-state observable views", vec![A_UNI, A_BOUND, "declared don't-cares D6, D11"], true)
        }
        "C05" => {
            props::c05(c, g);
            ("E2: every (reachable base state x movement op x parameter in {absent,0,1..size+2,9999}) transition, API and parser path; closed-form expectation on the cursor, frame condition on every other component. distinct_nontrivial = distinct post-state observable views", vec![A_BOUND], true)
        }
        "C06" => {
            props::c06(c, g);
            ("E2: every (base state with distinct markers / sparse rows x every region x every cursor) x {IND,LF,VT,FF,NEL,RI,IL n,DL n,DECSTBM t;b, autowrap draw} transition plus BFS over scroll histories; refined against a row-vector rotation model", vec![A_BOUND], true)
        }
        "C07" => {
            props::c07(c, g);
            ("E2: every (base state x ED/EL selector in {absent,0..5,9999} / ECH count) transition, API and parser path; cells in range == blank+cursor rendition, all else identical", vec![A_BOUND], true)
        }
        "C08" => {
            props2::c08(c, g);
            ("E4: every SGR code 0..=9999 singly from every rendition base state, all pairs (and triples over a core) of documented codes, all 38/48 forms with each component in 0..=300 and truncated tails, the same through CSI..m; oracle: independent left-to-right fold with its own palette; a character drawn afterwards must carry the rendition", vec![A_BOUND], true)
        }
        "C09" => {
            props2::c09(c, g);
            ("E2: well-formedness invariant evaluated on every post-state of the complete alphabet (incl. resize to every size and DECCOLM) from the product base states, and on every state of a mixed-alphabet BFS with full-key dedup", vec![A_BOUND, A_HASH], true)
        }
        "C10" => {
            props2::c10(c, g);
            ("E2: display() on every base state vs rendering recomputed from the grid; purity as a 2-run differential: o(s) vs o(display(s)) for every op of the full alphabet, and BFS where display is an ordinary op (all subsets of interposition points up to the depth)", vec![A_UNI, A_BOUND, "declared don't-care D5"], true)
        }
        "C11" => {
            props3::c11(c, g);
            ("E3: all byte strings over the UTF-8 class alphabet up to the length bound x all chunkings (+ empty chunks); after EVERY chunk the events seen so far must equal the std lossy decoding of the prefix minus its incomplete tail; scalar boundary set cut at every offset; 8-bit mode all bytes; mode switches between chunks", vec![A_BOUND, "std::String::from_utf8_lossy is the reference decoder", "declared don't-care D9"], true)
        }
        "C12" => {
            props2::c12(c, g);
            ("E4/E2: every mode number in the stated set x {private, ANSI} x {SM, RM} from representative base states, mode lists of length 2-3, the parser path, and BFS interleavings with DECSC/DECRC, resize, draw; refined against the reference model", vec![A_BOUND, "declared don't-care D3"], true)
        }
        "C13" => {
            props::c13(c, g);
            ("E2: every (base state x ICH/DCH x count) transition plus BFS over ICH/DCH/IRM-draw/EL/resize/display interleavings on one row with full-key dedup; list-splice reference", vec![A_BOUND], true)
        }
        "C14" => {
            props2::c14(c, g);
            ("E2: DECSC/DECRC from base states with stack depth 0..4 refined against the model; every other op must leave the stack unchanged; BFS over save/restore histories with intervening movement, SGR, charset, mode, margin and resize operations", vec![A_BOUND, "declared don't-care D2"], true)
        }
        "C15" => {
            props2::c15(c, g);
            ("E2: reset() and ESC c from every base state (incl. after DECCOLM/resize/title/tab edits): observable view == new screen of the current size (stack excluded), every row dirty; full-key equality with a new screen (=> equal futures by determinism), bounded continuations compared when keys differ", vec![A_BOUND], true)
        }
        "C16" => {
            props2::c16(c, g);
            ("E2: resize to every size 1..=L+2 x 1..=C+2 from every base state, BFS over resize sequences interleaved with residue-making edits, DECCOLM round trip; crop/extend reference; same size => full key unchanged", vec![A_BOUND, "declared don't-cares D1, D7"], true)
        }
        "C17" => {
            props2::c17(c, g);
            ("E2: every transition of the full alphabet (API + parser path, both mode spellings) from base states with a cleared dirty set, and BFS histories with clear_dirty as an op: rows whose cells changed must be in dirty, screen-wide changes mark all rows, no stale indices; model-free row diff", vec![A_BOUND], true)
        }
        "C18" => {
            props2::c18(c, g);
            ("E4: default stops for every width 1..=140 (new, reset, ESC c); every subset of stops on small widths x every cursor x {HT,HTS,TBC h}; edge sets on large widths; width changes (resize, DECCOLM) between setting and using a stop", vec![A_BOUND, "declared don't-care D7"], true)
        }
        "C19" => {
            props3::c19(c, g);
            ("E1 on a real Screen: every payload over the payload alphabet up to the length bound x codes x introducers x terminators, single feed + every 2-way chunking, chars and UTF-8 bytes; closed-form expectation on title/icon/grid/cursor", vec![A_BOUND, "declared don't-care D8"], true)
        }
        "C20" => {
            props2::c20(c, g);
            ("E4: all 4x256 table entries vs independently written tables (installed arrays and public constants), 256 code points x 4 tables x {G0,G1} x {SI,SO} drawn through the API, the 8-bit parser path byte by byte, UTF-8 mode ignoring shifts/designators", vec!["CP437 0x80..0xff generated from Python's cp437 codec at authoring time; VAX42 substitutions copied from the published table"], true)
        }
        _ => return None,
    })
}

fn run(prop: &str, tier: &str) -> i32 {
    if tier != "quick" && tier != "thorough" {
        out!("unknown tier {:?} (quick | thorough)", tier);
        return 2;
    }
    let c: &'static Collector = Box::leak(Box::new(Collector::new(prop, tier)));
    // Whole-run watchdog: the explicit-state searches run the subject inside this process, so a
    // hang there would never end. At the deadline everything found so far is reported (verdict
    // lines, replay files, evidence marked incomplete) and the process exits: 1 if a violation
    // was seen, otherwise 2 (machinery), never 0.
    let deadline_s: u64 = std::env::var("VERIF_RUN_TIMEOUT_S").ok().and_then(|s| s.parse().ok()).unwrap_or(if tier == "quick" { 1500 } else { 6 * 3600 });
    {
        let dir = verif_dir();
        std::thread::spawn(move || {
            std::thread::sleep(std::time::Duration::from_secs(deadline_s));
            let msg = format!("run exceeded its wall-clock budget of {} s (a hang of the subject inside an explicit-state search, or an overloaded machine); results so far reported", deadline_s);
            let code = report::finish(c, &dir, "incomplete run (watchdog)", &[], false, &[msg.clone()]);
            out!("MACHINERY: {}", msg);
            std::process::exit(if code == 1 { 1 } else { 2 });
        });
    }
    let mut g = props::Guard::new();
    let (rule, assumptions, exhaustive) = match run_body(prop, c, &mut g) {
        Some(x) => x,
        None => {
            out!("unknown property {}", prop);
            return 2;
        }
    };
    let mut machinery: Vec<String> = c.crashes();
    machinery.extend(g.failures.iter().cloned());
    let code = report::finish(c, &verif_dir(), rule, &assumptions, exhaustive, &machinery);
    isolate::cleanup_tmp();
    for m in &machinery {
        out!("MACHINERY: {}", m);
    }
    // a violation that was observed is a verdict even if some other worker ended abnormally
    if code == 1 {
        return 1;
    }
    if !machinery.is_empty() {
        return 2;
    }
    code
}

fn main() {
    let args: Vec<String> = std::env::args().collect();
    std::env::set_var("RUST_BACKTRACE", "0");
    silence_stdout_of_subject();
    ops::install_panic_hook();
    let code = match args.get(1).map(|s| s.as_str()) {
        Some("run") => {
            let prop = args.get(2).cloned().unwrap_or_default();
            let tier = args.get(3).cloned().unwrap_or_else(|| "quick".to_string());
            // a panic of the harness itself in this process is a machinery exit, never a verdict
            match std::panic::catch_unwind(|| run(&prop, &tier)) {
                Ok(code) => code,
                Err(_) => {
                    out!("MACHINERY: the harness itself panicked in the main process");
                    2
                }
            }
        }
        Some("replay") => match std::panic::catch_unwind(|| replay::replay(args.get(2).map(|s| s.as_str()).unwrap_or(""))) {
            Ok(code) => code,
            Err(_) => {
                out!("MACHINERY: the harness itself panicked while replaying");
                2
            }
        },
        _ => {
            out!("usage: mc run <Cxx> <quick|thorough> | mc replay <file>");
            2
        }
    };
    std::process::exit(code);
}
