macro_rules! out {
    ($($arg:tt)*) => { $crate::outln(&format!($($arg)*)) };
}

mod explore;
mod isolate;
mod judge;
mod ops;
mod props;
mod recog;
mod refscreen;
mod report;
mod seeds;
mod snapshot;
mod tables;
mod utf8ref;

use report::Collector;

fn verif_dir() -> String {
    std::env::var("VERIF_DIR").unwrap_or_else(|_| "/verif".to_string())
}

fn silence_stdout_of_subject() {
    // memterm prints diagnostics ("unexpected csi escape code ..") on stdout.
    // We keep our own copy of the real stdout and point fd 1 at /dev/null.
    unsafe {
        let saved = libc::dup(1);
        let devnull = libc::open(b"/dev/null\0".as_ptr() as *const libc::c_char, libc::O_WRONLY);
        if saved >= 0 && devnull >= 0 {
            libc::dup2(devnull, 1);
            libc::close(devnull);
            OUT_FD = saved;
        }
    }
}

static mut OUT_FD: i32 = 1;

/// Print a line on the real stdout.
pub fn outln(s: &str) {
    let mut line = s.to_string();
    line.push('\n');
    unsafe {
        let fd = OUT_FD;
        let b = line.as_bytes();
        let mut off = 0;
        while off < b.len() {
            let n = libc::write(fd, b[off..].as_ptr() as *const libc::c_void, b.len() - off);
            if n <= 0 {
                break;
            }
            off += n as usize;
        }
    }
}


fn run(prop: &str, tier: &str) -> i32 {
    let c = Collector::new(prop, tier);
    let mut g = props::Guard::new();
    let (rule, assumptions, exhaustive): (&str, Vec<&str>, bool) = match prop {
        "C04" => {
            props::c04(&c, &mut g);
            (
                "E2: every (reachable base state x draw text) transition of the real Screen, plus BFS over draw/motion/mode histories with full-key dedup; each transition refined against the reference model from alpha(pre). distinct_nontrivial = distinct post-state observable views",
                vec!["unicode-width / unicode-normalization tables are trusted (shared with the subject)", "declared don't-cares D6, D11"],
                true,
            )
        }
        "C05" => {
            props::c05(&c, &mut g);
            (
                "E2: every (reachable base state x movement op x parameter in {absent,0,1..size+2,9999}) transition, API and parser path; closed-form expectation on the cursor, frame condition on every other component. distinct_nontrivial = distinct post-state observable views",
                vec!["bounded geometries; the finite per-geometry domain is enumerated completely"],
                true,
            )
        }
        "C06" => {
            props::c06(&c, &mut g);
            (
                "E2: every (base state with distinct markers / sparse rows x every region x every cursor) x {IND,LF,VT,FF,NEL,RI,IL n,DL n,DECSTBM t;b, autowrap draw} transition plus BFS over scroll histories; refined against row-vector rotation model",
                vec!["bounded geometries (lines <= 5)"],
                true,
            )
        }
        "C07" => {
            props::c07(&c, &mut g);
            (
                "E2: every (base state x ED/EL selector in {absent,0..5,9999} / ECH count) transition, API and parser path; cells in range == blank+cursor rendition, all else identical",
                vec!["bounded geometries"],
                true,
            )
        }
        "C13" => {
            props::c13(&c, &mut g);
            (
                "E2: every (base state x ICH/DCH x count) transition plus BFS over ICH/DCH/IRM-draw/EL/resize/display interleavings on one row with full-key dedup; list-splice reference",
                vec!["bounded geometries"],
                true,
            )
        }
        _ => {
            out!("unknown property {}", prop);
            return 2;
        }
    };
    let code = report::finish(&c, &verif_dir(), rule, &assumptions, exhaustive);
    for cr in c.crashes() {
        out!("MACHINERY: {}", cr);
    }
    if !c.crashes().is_empty() {
        return 2;
    }
    if !g.failures.is_empty() && code == 0 {
        for f in &g.failures {
            out!("MACHINERY: {}", f);
        }
        return 2;
    }
    code
}

fn main() {
    let args: Vec<String> = std::env::args().collect();
    std::env::set_var("RUST_BACKTRACE", "0");
    silence_stdout_of_subject();
    ops::install_panic_hook();
    let code = match args.get(1).map(|s| s.as_str()) {
        Some("run") => {
            let prop = args.get(2).cloned().unwrap_or_default();
            let tier = args.get(3).cloned().unwrap_or_else(|| "quick".to_string());
            run(&prop, &tier)
        }
        _ => {
            out!("usage: mc run <Cxx> <quick|thorough> | mc replay <file>");
            2
        }
    };
    std::process::exit(code);
}
