//! Campaigns for C08 C09 C10 C12 C14 C15 C16 C17 C18 C20 (DESIGN.md section 7).

use memterm::parser_listener::ParserListener;
use memterm::screen::Screen;
use serde_json::json;
use unicode_width::UnicodeWidthChar;

use crate::explore::{bfs, par_map, run_op, sweep, Base, Local, Trans};
use crate::judge::*;
use crate::ops::{apply, build, Op, P};
use crate::props::{gen_bases, geoms, history_tree_j, large_bases, repeat_op, sweep_with_extras, with_poison, Guard};
use crate::refscreen::{compare, Comp, Model, ALL_COMPS, DECCOLM};
use crate::report::{Collector, Violation};
use crate::seeds::*;
use crate::snapshot::{full_key, snap, Cell, Snap, DECSCNM};
use crate::tables;

fn csi(params: &str, f: char) -> Op {
    Op::Feed(vec![format!("\x1b[{}{}", params, f)], true)
}

fn viol(c: &Collector, prop: &str, engine: &str, t: &Trans, class: &str, detail: String) {
    c.violation(mk_violation(prop, engine, t, class, detail, json!({})));
}

/// The complete operation alphabet on a columns x lines screen (about 230 instances on 4x3).
pub fn full_alphabet(c: u32, l: u32) -> Vec<Op> {
    let dom = pdom(c, l);
    let mut v: Vec<Op> = vec![
        Op::Bell,
        Op::Backspace,
        Op::Tab,
        Op::Linefeed,
        Op::Index,
        Op::ReverseIndex,
        Op::CarriageReturn,
        Op::ShiftOut,
        Op::ShiftIn,
        Op::SetTabStop,
        Op::SaveCursor,
        Op::RestoreCursor,
        Op::Reset,
        Op::AlignmentDisplay,
        Op::Display,
        Op::Da(None),
        Op::SetTitle("t".into()),
        Op::SetIconName("i".into()),
        // string arguments the parser never produces but the direct API accepts
        Op::Draw("".into()),
        Op::Draw("\n\t\x1b\x07\u{9b}".into()),
        Op::SetTitle("".into()),
        Op::SetIconName("".into()),
        Op::SetTitle("\u{30a2}\u{e9};\\ \u{0}".into()),
        Op::DefineCharset("".into(), "(".into()),
        Op::DefineCharset("B".into(), "".into()),
        Op::DefineCharset("\u{30a2}0".into(), ")x".into()),
    ];
    for code in ["B", "0", "U", "V", "Z"] {
        for slot in ["(", ")"] {
            v.push(Op::DefineCharset(code.into(), slot.into()));
        }
    }
    for t in crate::props::c04_texts(c) {
        v.push(Op::Draw(t));
    }
    for p in &dom {
        v.push(Op::Ich(*p));
        v.push(Op::Cuu(*p));
        v.push(Op::Cud(*p));
        v.push(Op::Cuf(*p));
        v.push(Op::Cub(*p));
        v.push(Op::Cnl(*p));
        v.push(Op::Cpl(*p));
        v.push(Op::Cha(*p));
        v.push(Op::Il(*p));
        v.push(Op::Dl(*p));
        v.push(Op::Dch(*p));
        v.push(Op::Ech(*p));
        v.push(Op::Vpa(*p));
    }
    for h in [None, Some(0), Some(1), Some(2), Some(3), Some(4), Some(9999)] {
        v.push(Op::Ed(h));
        v.push(Op::El(h));
        v.push(Op::Tbc(h));
    }
    let small: Vec<P> = vec![None, Some(0), Some(1), Some(2), Some(l), Some(l + 1), Some(9999)];
    for a in &small {
        for b in &small {
            v.push(Op::Cup(*a, *b));
            v.push(Op::SetMargins(*a, *b));
        }
    }
    for m in [4u32, 20, 3, 5, 6, 7, 25, 1049] {
        for private in [false, true] {
            v.push(Op::Sm(vec![m], private));
            v.push(Op::Rm(vec![m], private));
        }
    }
    v.push(Op::Sm(vec![96, 160], false)); // DECCOLM, DECSCNM by their shifted numbers
    v.push(Op::Rm(vec![160, 192], false));
    for a in [
        vec![],
        vec![0],
        vec![1],
        vec![7],
        vec![27],
        vec![31, 44],
        vec![38, 5, 196],
        vec![48, 2, 1, 2, 3],
        vec![0, 1],
        vec![38, 2, 300, 0, 0],
        // every truncation of the extended-colour forms (index arithmetic on the parameter list)
        vec![38],
        vec![38, 2],
        vec![38, 2, 10],
        vec![38, 2, 10, 20],
        vec![48, 5],
        vec![48, 2, 10, 20],
        vec![1, 38, 5],
        // codes next to the documented ranges, all flags on / off
        vec![99],
        vec![109],
        vec![39, 49],
        vec![1, 3, 4, 5, 7, 9],
        vec![22, 23, 24, 25, 27, 29],
        vec![90, 107],
    ] {
        v.push(Op::Sgr(a));
    }
    for ll in size_dom(l) {
        for cc in size_dom(c) {
            v.push(Op::Resize(Some(ll), Some(cc)));
        }
    }
    v.push(Op::Resize(None, None));
    v.push(Op::Resize(None, Some(c + 1)));
    v.push(Op::Resize(Some(l + 1), None));
    v
}

fn broad_spec(c: &Collector, gs: Vec<(u32, u32)>) -> Spec {
    Spec {
        geoms: gs,
        fills: vec![Fill::F0, Fill::F1, Fill::F2, Fill::F3, Fill::F4, Fill::F5, Fill::F6, Fill::F7],
        cursors: CursorSel::All,
        regions: RegionSel::Some,
        modesets: vec![],
        renditions: default_renditions(),
        stacks: if c.thorough() { vec![0, 1, 3] } else { vec![0, 2] },
        charsets: default_charsets(),
        hidden_cursor: false,
    }
}

fn small_bfs_seeds(c: &Collector, g: (u32, u32)) -> Vec<Base> {
    let spec = Spec {
        geoms: vec![g],
        fills: vec![Fill::F0, Fill::F1, Fill::F3],
        cursors: CursorSel::Corners,
        regions: RegionSel::Some,
        modesets: vec![0, M_DECOM | M_IRM, M_DECAWM_OFF | M_DECSCNM],
        renditions: vec![vec![]],
        stacks: vec![0, 2],
        charsets: default_charsets(),
        hidden_cursor: false,
    };
    gen_bases(c, &spec)
}

/// A mixed alphabet for depth-k histories: residue makers, resizes, mode switches.
fn mixed_alphabet(s: &Screen) -> Vec<Op> {
    let (c, l) = (s.columns, s.lines);
    let mut v = vec![
        Op::Draw("a".into()),
        Op::Draw("\u{30a2}".into()),
        Op::Draw("\u{308}".into()),
        Op::Linefeed,
        Op::ReverseIndex,
        Op::CarriageReturn,
        Op::Tab,
        Op::SetTabStop,
        Op::Ich(None),
        Op::Dch(None),
        Op::El(Some(1)),
        Op::Ed(Some(0)),
        Op::Il(None),
        Op::Dl(None),
        Op::Cup(None, None),
        Op::Cup(Some(l), Some(c)),
        Op::Cuf(Some(9999)),
        Op::SetMargins(Some(1), Some(2)),
        Op::SetMargins(None, None),
        Op::Sm(vec![6], true),
        Op::Sm(vec![4], false),
        Op::Sm(vec![5], true),
        Op::Rm(vec![5], true),
        Op::Sm(vec![3], true),
        Op::Rm(vec![3], true),
        Op::Rm(vec![25], true),
        Op::Sm(vec![25], true),
        Op::DefineCharset("0".into(), "(".into()),
        Op::ShiftOut,
        Op::Sgr(vec![7, 33]),
        Op::SaveCursor,
        Op::RestoreCursor,
        Op::Reset,
        Op::Display,
        Op::AlignmentDisplay,
    ];
    for (ll, cc) in [(l + 1, c), (l, c + 1), (l + 1, c + 1)] {
        v.push(Op::Resize(Some(ll), Some(cc)));
    }
    if l > 1 {
        v.push(Op::Resize(Some(l - 1), Some(c)));
        v.push(Op::Resize(Some(1), None));
    }
    if c > 1 {
        v.push(Op::Resize(Some(l), Some(c - 1)));
        v.push(Op::Resize(None, Some(1)));
    }
    v
}

// =====================================================================  C09
pub fn c09(c: &Collector, g: &mut Guard) {
    let gs = if c.thorough() { crate::props::thorough_geoms() } else { crate::props::quick_geoms() };
    let bases = gen_bases(c, &broad_spec(c, gs.clone()));
    // construction itself
    for w in 1..=140u32 {
        for l in [1u32, 2, 24, 40] {
            c.add_transitions(1);
            c.count("oracle_checks", 1);
            // (the constructor is subject code: a panic there is C09's "after construction", not the harness's)
            let wf = match build(w, l, &[]) {
                Ok(s) => crate::snapshot::wellformed(&s),
                Err((_, m)) => vec![format!("Screen::new({}, {}) panicked: {}", w, l, m)],
            };
            if !wf.is_empty() {
                c.violation(Violation {
                    property: "C09".into(),
                    engine: "E2.new".into(),
                    sig: "new|invariant".into(),
                    columns: w,
                    lines: l,
                    script: vec![],
                    op: None,
                    detail: wf.join("; "),
                    extra: json!({}),
                });
            }
        }
    }
    sweep(
        c,
        &bases,
        |b| full_alphabet(b.columns, b.lines),
        |c, t, local| {
            if t.pre.columns != 132 {
                local.count("judged");
            }
            invariant(c, "C09", "E2.depth1.full", t, local);
            // display() length on every post-state
            if let Ok((s, _, None)) = t.outcome {
                let mut s2 = s.clone();
                if let Ok(Some(d)) = apply(&mut s2, &Op::Display) {
                    if d.len() as u32 != s2.lines {
                        viol(c, "C09", "E2.depth1.full", t, "invariant:display-rows", format!("display() returned {} rows, lines={}", d.len(), s2.lines));
                    }
                }
            }
        },
    );
    // "every reported cell has a fg/bg that is a documented colour name or a hexadecimal colour
    // string": every single SGR code 0..=300 (and the indexed forms at the palette's edges), then
    // the operations that put the cursor's colours into cells
    let mut cb: Vec<Base> = Vec::new();
    for b in bases.iter().filter(|b| b.columns >= 2).step_by((bases.len() / 3).max(1)).take(3) {
        let mut lists: Vec<Vec<u32>> = (0..=300u32).map(|n| vec![n]).collect();
        for n in [0u32, 4, 7, 8, 15, 16, 231, 232, 255, 256, 9999] {
            lists.push(vec![38, 5, n]);
            lists.push(vec![48, 5, n]);
            lists.push(vec![38, 2, n, 0, 255]);
        }
        for a in lists {
            let mut s2 = b.screen.clone();
            let op = Op::Sgr(a);
            if apply(&mut s2, &op).is_ok() {
                let mut script = b.script.clone();
                script.push(op);
                cb.push(Base { columns: b.columns, lines: b.lines, script, screen: s2 });
            }
        }
    }
    c.count("colour_code_bases", cb.len() as u64);
    sweep(c, &cb, |_| vec![Op::Draw("x".into()), Op::Ech(Some(1)), Op::El(Some(2)), Op::Ed(Some(2)), Op::Draw("\u{30a2}".into())], |c, t, local| {
        local.count("colour_code_transitions");
        invariant(c, "C09", "E2.colour-codes", t, local);
    });
    let lb = large_bases(c, vec![Fill::F0, Fill::F1]);
    sweep(c, &lb, |b| full_alphabet(b.columns, b.lines), |c, t, local| {
        local.count("large_geometry_transitions");
        invariant(c, "C09", "E2.depth1.large", t, local);
    });
    // sizes around the parser's 9999 clamp and the 16-bit boundary (from tiny screens)
    let hb: Vec<Base> = bases.iter().filter(|b| b.columns <= 3 && b.lines <= 2).step_by(97).take(6).cloned().collect();
    sweep(
        c,
        &hb,
        |_| {
            let mut v = Vec::new();
            for n in [9998u32, 9999, 10000, 12000, 65535, 65536, 70000] {
                v.push(Op::Resize(Some(n), None));
                v.push(Op::Resize(None, Some(n)));
                v.push(Op::Resize(Some(n), Some(2)));
            }
            v
        },
        |c, t, local| {
            local.count("huge_resizes");
            invariant(c, "C09", "E2.huge-sizes", t, local);
        },
    );
    let depth = if c.thorough() { 4 } else { 3 };
    for gg in [(3u32, 2u32), (4, 3)] {
        if gg == (4, 3) && !c.thorough() {
            continue;
        }
        let seeds = small_bfs_seeds(c, gg);
        let st = bfs(c, &seeds, depth, 4_000_000, mixed_alphabet, |c, t, local| {
            local.count("bfs_judged");
            invariant(c, "C09", "E2.bfs.mixed", t, local) && expand_ok(t)
        });
        c.bound(&format!("bfs_levels_{}x{}", gg.0, gg.1), json!(st.levels));
    }
    // DECCOLM round trips from 10- and 132-column screens, through the byte parser too
    let rt_bases: Vec<Base> = [(10u32, 3u32), (132, 2)]
        .iter()
        .flat_map(|&(w, l)| {
            let mut v = Vec::new();
            for y in 0..l {
                for x in [0, w / 2, w - 1] {
                    let script = vec![Op::Draw("ab".into()), Op::Cup(Some(y + 1), Some(x + 1))];
                    if let Ok(s) = build(w, l, &script) {
                        v.push(Base { columns: w, lines: l, script, screen: s });
                    }
                }
            }
            v
        })
        .collect();
    sweep(
        c,
        &rt_bases,
        |_| {
            vec![
                Op::FeedBytes(vec![b"\x1b[?3h".to_vec()], true),
                Op::FeedBytes(vec![b"\x1b[?3hxy\x1b[?3l".to_vec()], true),
                Op::FeedBytes(vec![b"\x1b[?3l".to_vec()], true),
                Op::FeedBytes(vec![b"\x1b[?3h\x1b[?3h\x1b[?3l\x1b[?3l".to_vec()], true),
                Op::Feed(vec!["\x1b[?3h\x1b[99G\x1bH\x1b[?3l\t\t\t".into()], true),
            ]
        },
        |c, t, local| {
            local.count("deccolm_roundtrips");
            invariant(c, "C09", "E5.deccolm", t, local);
        },
    );
    c.bound("geometries", json!(gs));
    c.bound("bfs_depth", json!(depth));
    c.bound("alphabet", json!("complete listener alphabet with P(g) parameters, resize to every size 1..=L+2 x 1..=C+2, DECCOLM"));
    g.need(c, "huge_resizes");
    g.need(c, "large_geometry_transitions");
    g.need(c, "judged");
    g.need(c, "bfs_judged");
    g.need(c, "deccolm_roundtrips");
    g.need(c, "colour_code_transitions");
}

// =====================================================================  C10
/// All renderings of a row allowed by the stated rule: concatenation of the cell
/// texts, skipping the placeholder that follows a double-width character; D5: a
/// lead followed by a non-placeholder cell may be followed by it or not.
fn renderings(row: &[Cell]) -> Vec<String> {
    let mut outs: Vec<String> = vec![String::new()];
    let mut i = 0;
    // positions where D5 applies create two variants: handled by recursion on the remaining suffix
    fn rec(row: &[Cell], i: usize, acc: String, outs: &mut Vec<String>) {
        if i >= row.len() {
            outs.push(acc);
            return;
        }
        let d = row[i].data.as_str();
        let mut acc2 = acc;
        acc2.push_str(d);
        let wide = d.chars().next().map(|ch| ch.width() == Some(2)).unwrap_or(false);
        if wide && i + 1 < row.len() {
            if row[i + 1].data.as_str().is_empty() {
                rec(row, i + 2, acc2, outs);
            } else {
                rec(row, i + 2, acc2.clone(), outs);
                rec(row, i + 1, acc2, outs);
            }
        } else {
            rec(row, i + 1, acc2, outs);
        }
    }
    outs.clear();
    let _ = &mut i;
    rec(row, 0, String::new(), &mut outs);
    outs
}

/// display() must agree with the grid (compared after NFC: canonical equivalence is
/// preserved by concatenation, and cell texts are stored NFC-normalised in the snapshot).
pub fn check_display(pre: &Snap, d: &[String]) -> Option<String> {
    use unicode_normalization::UnicodeNormalization;
    if d.len() != pre.grid.len() {
        return Some(format!("display() returned {} rows, lines={}", d.len(), pre.grid.len()));
    }
    for (y, row) in pre.grid.iter().enumerate() {
        let out: String = d[y].nfc().collect();
        let ok = renderings(row).iter().any(|r| r.nfc().collect::<String>() == out);
        if !ok {
            return Some(format!("row {} rendered {:?}, cells are {:?}", y, d[y], row));
        }
    }
    None
}

pub fn c10(c: &Collector, g: &mut Guard) {
    let gs = geoms(c);
    let mut spec = broad_spec(c, gs.clone());
    spec.stacks = vec![0];
    let mut bases = gen_bases(c, &spec);
    // the dirty set is observable state: half of the base states start from a cleared set (a
    // display() that creates rows as a side effect must not mark them)
    for b in bases.iter_mut().step_by(2) {
        b.screen.dirty.clear();
        b.script.push(Op::ClearDirty);
    }
    // (1) faithful + pure on every base state
    sweep(
        c,
        &bases,
        |_| vec![Op::Display],
        |c, t, local| match t.outcome {
            Err(m) => {
                viol(c, "C10", "E2.display", t, &format!("panic:{}", panic_class(m)), format!("display() panicked: {}", m));
            }
            Ok((s, post, d)) => {
                let d = d.as_ref().unwrap();
                local.count("display_calls");
                local.count("oracle_checks");
                let (absent, _) = crate::snapshot::residue(t.pre_screen);
                if absent > 0 {
                    local.count("display_materialised_rows");
                }
                if t.pre.grid.iter().any(|r| r.iter().any(|c| c.data.as_str().is_empty())) {
                    local.count("grids_with_placeholder");
                }
                if let Some(m) = check_display(t.pre, d) {
                    viol(c, "C10", "E2.display", t, "mismatch:rendering", m);
                }
                if post != t.pre {
                    let diffs = compare(t.pre, post, &Default::default(), &ALL_COMPS);
                    let what = if post.dirty != t.pre.dirty {
                        format!("dirty {:?} -> {:?}", t.pre.dirty, post.dirty)
                    } else {
                        diffs.first().map(|d| d.1.clone()).unwrap_or_default()
                    };
                    viol(c, "C10", "E2.display", t, "impure:state-changed", format!("display() changed the observable state: {}", what));
                }
                // calling it again gives the same
                let mut s2 = s.clone();
                if let Ok(Some(d2)) = apply(&mut s2, &Op::Display) {
                    if &d2 != d {
                        viol(c, "C10", "E2.display", t, "impure:second-call-differs", format!("{:?} then {:?}", d, d2));
                    }
                }
            }
        },
    );
    // (2) o(s) vs o(display(s)) for every op of the full alphabet
    sweep(
        c,
        &bases,
        |b| full_alphabet(b.columns, b.lines),
        |c, t, local| {
            if matches!(t.op, Op::Display) {
                return;
            }
            let mut s2 = t.pre_screen.clone();
            if apply(&mut s2, &Op::Display).is_err() {
                return; // reported by (1)
            }
            let with = run_op(&s2, t.op);
            local.transitions += 1;
            local.count("paired_runs");
            local.count("oracle_checks");
            // display() called after an earlier display() must still be faithful to the cells (a row
            // cache inside display() that one mutating path forgets to invalidate), also when the
            // embedder cleared the dirty set in between (a cache keyed on `dirty`)
            if let Ok((sw, b, _)) = &with {
                let mut s3 = sw.clone();
                if let Ok(Some(d3)) = apply(&mut s3, &Op::Display) {
                    local.count("display_after_display");
                    if let Some(m) = check_display(b, &d3) {
                        viol(c, "C10", "E2.pair", t, "stale:display-after-display", format!("display(); {}; display(): {}", t.op.short(), m));
                    }
                }
            }
            let mut s4 = s2.clone();
            if apply(&mut s4, &Op::ClearDirty).is_ok() {
                if let Ok((s5, b5, _)) = run_op(&s4, t.op) {
                    let mut s6 = s5.clone();
                    if let Ok(Some(d6)) = apply(&mut s6, &Op::Display) {
                        local.transitions += 1;
                        local.count("display_clear_op_display");
                        if let Some(m) = check_display(&b5, &d6) {
                            viol(c, "C10", "E2.pair", t, "stale:display-after-clear", format!("display(); clear dirty; {}; display(): {}", t.op.short(), m));
                        }
                    }
                }
            }
            match (t.outcome, &with) {
                (Ok((_, a, da)), Ok((_, b, db))) => {
                    if a != b {
                        let diffs = compare(a, b, &Default::default(), &ALL_COMPS);
                        let what = diffs.first().map(|d| d.1.clone()).unwrap_or_else(|| format!("dirty {:?} vs {:?}", a.dirty, b.dirty));
                        viol(c, "C10", "E2.pair", t, "impure:later-op-differs", format!("op after display() ends in a different state (expected = without display): {}", what));
                    } else if da != db {
                        viol(c, "C10", "E2.pair", t, "impure:later-display-differs", format!("{:?} vs {:?}", da, db));
                    } else {
                        local.count("paired_equal");
                    }
                }
                (Err(_), Err(_)) => {}
                (Ok(_), Err(m)) => viol(c, "C10", "E2.pair", t, &format!("impure:panic-after-display:{}", panic_class(m)), format!("op panics only after display(): {}", m)),
                (Err(m), Ok(_)) => viol(c, "C10", "E2.pair", t, &format!("impure:panic-without-display:{}", panic_class(m)), format!("op panics only without display(): {}", m)),
            }
        },
    );
    let lb = large_bases(c, vec![Fill::F0, Fill::F1, Fill::F3, Fill::F7]);
    sweep(c, &lb, |_| vec![Op::Display], |c, t, local| {
        local.count("large_geometry_transitions");
        if let Ok((_, post, Some(d))) = t.outcome {
            if let Some(m) = check_display(t.pre, d) {
                viol(c, "C10", "E2.display.large", t, "mismatch:rendering", m);
            }
            if post != t.pre {
                viol(c, "C10", "E2.display.large", t, "impure:state-changed", "display() changed the observable state".into());
            }
        } else if let Err(m) = t.outcome {
            viol(c, "C10", "E2.display.large", t, &format!("panic:{}", panic_class(m)), format!("display() panicked: {}", m));
        }
    });
    // big screens (more than 4096 cells) with attribute-only blank rows
    let bigspec = Spec {
        geoms: vec![(100, 60), (132, 43)],
        fills: vec![Fill::F0, Fill::F5, Fill::F8],
        cursors: CursorSel::Home,
        regions: RegionSel::NoRegion,
        modesets: vec![0, M_DECSCNM],
        renditions: vec![vec![], vec![27, 42]],
        stacks: vec![0],
        charsets: default_charsets(),
        hidden_cursor: false,
    };
    let mut bigb = gen_bases(c, &bigspec);
    // a coloured bar and a reverse bar painted with EL
    let extra: Vec<Base> = bigb
        .iter()
        .filter_map(|b| {
            let mut s2 = b.screen.clone();
            let tail = vec![Op::Cup(Some(11), Some(1)), Op::Sgr(vec![7]), Op::El(Some(2)), Op::Cup(Some(b.lines), Some(1)), Op::Sgr(vec![0, 44]), Op::El(Some(2)), Op::Sgr(vec![])];
            for op in &tail {
                apply(&mut s2, op).ok()?;
            }
            let mut script = b.script.clone();
            script.extend(tail);
            Some(Base { columns: b.columns, lines: b.lines, script, screen: s2 })
        })
        .collect();
    bigb.extend(extra);
    sweep(c, &bigb, |_| vec![Op::Display], |c, t, local| {
        local.count("big_screen_displays");
        if let Ok((_, post, Some(d))) = t.outcome {
            if let Some(m) = check_display(t.pre, d) {
                viol(c, "C10", "E2.display.big", t, "mismatch:rendering", m);
            }
            if post != t.pre {
                let diffs = compare(t.pre, post, &Default::default(), &ALL_COMPS);
                viol(c, "C10", "E2.display.big", t, "impure:state-changed", format!("display() changed the observable state: {}", diffs.first().map(|d| d.1.clone()).unwrap_or_else(|| "dirty".into())));
            }
        } else if let Err(m) = t.outcome {
            viol(c, "C10", "E2.display.big", t, &format!("panic:{}", panic_class(m)), format!("display() panicked: {}", m));
        }
    });
    // two later operations after display() on wide rows: o2(o1(s)) vs o2(o1(display(s)))
    let wide: Vec<Base> = large_bases(c, vec![Fill::F0, Fill::F8, Fill::F2]).into_iter().filter(|b| b.columns > 100).step_by(2).collect();
    sweep(
        c,
        &wide,
        |b| {
            let w = b.columns;
            let _ = w;
            vec![Op::Bell] // one call per base; the pairs are enumerated in the judge
        },
        |c, t, local| {
            let _ = t;
            let o1s = [Op::Ich(Some(2)), Op::Ich(Some(300)), Op::Dch(Some(1)), Op::Il(Some(1)), Op::Draw("wxyz".into())];
            let o2s = [Op::Resize(None, Some(t.pre.columns + 4)), Op::Resize(Some(t.pre.lines + 2), Some(t.pre.columns + 1))];
            let mut disp = t.pre_screen.clone();
            if apply(&mut disp, &Op::Display).is_err() {
                return;
            }
            for o1 in &o1s {
                for o2 in &o2s {
                    let run = |start: &Screen| -> Option<crate::snapshot::Snap> {
                        let mut x = start.clone();
                        apply(&mut x, o1).ok()?;
                        apply(&mut x, o2).ok()?;
                        Some(snap(&x))
                    };
                    local.transitions += 4;
                    local.count("two_step_pairs");
                    if let (Some(a), Some(b)) = (run(t.pre_screen), run(&disp)) {
                        if a != b {
                            let diffs = compare(&a, &b, &Default::default(), &ALL_COMPS);
                            let mut script2 = t.script.to_vec();
                            script2.push(o1.clone());
                            let t2 = Trans { columns: t.columns, lines: t.lines, script: &script2, pre: t.pre, pre_screen: t.pre_screen, op: o2, outcome: t.outcome };
                            viol(
                                c,
                                "C10",
                                "E2.pair2.large",
                                &t2,
                                "impure:later-ops-differ",
                                format!(
                                    "{} then {} end in a different state when display() was called first: {}",
                                    o1.short(),
                                    o2.short(),
                                    diffs.first().map(|d| d.1.clone()).unwrap_or_else(|| "dirty".into())
                                ),
                            );
                            return;
                        }
                    }
                }
            }
        },
    );
    // (3) histories with display interposed at every subset of positions: BFS where display is an
    // ordinary op; dedup on the full key keeps absent/materialised variants apart; every transition
    // out of both variants is compared with the same model.
    let depth = if c.thorough() { 4 } else { 3 };
    let seeds = small_bfs_seeds(c, (3, 2));
    let st = bfs(c, &seeds, depth, 4_000_000, mixed_alphabet, |c, t, local| {
        if matches!(t.op, Op::Display) {
            local.count("bfs_display");
            local.count("oracle_checks");
            if let Ok((_, post, Some(d))) = t.outcome {
                if let Some(m) = check_display(t.pre, d) {
                    viol(c, "C10", "E2.bfs", t, "mismatch:rendering", m);
                }
                if post != t.pre {
                    viol(c, "C10", "E2.bfs", t, "impure:state-changed", "display() changed the observable state".into());
                }
            } else if let Err(m) = t.outcome {
                viol(c, "C10", "E2.bfs", t, &format!("panic:{}", panic_class(m)), format!("display() panicked: {}", m));
            }
            return expand_ok(t);
        }
        // differential with the materialised twin
        let mut s2 = t.pre_screen.clone();
        if apply(&mut s2, &Op::Display).is_ok() {
            let with = run_op(&s2, t.op);
            local.count("paired_runs");
            local.count("oracle_checks");
            if let (Ok((_, a, _)), Ok((_, b, _))) = (t.outcome, &with) {
                if a != b {
                    let diffs = compare(a, b, &Default::default(), &ALL_COMPS);
                    let what = diffs.first().map(|d| d.1.clone()).unwrap_or_else(|| format!("dirty {:?} vs {:?}", a.dirty, b.dirty));
                    viol(c, "C10", "E2.bfs.pair", t, "impure:later-op-differs", format!("op after display() ends in a different state (expected = without display): {}", what));
                }
            }
        }
        expand_ok(t)
    });
    c.bound("bfs_levels_3x2", json!(st.levels));
    c.bound("geometries", json!(gs));
    c.bound("bfs_depth", json!(depth));
    g.need(c, "display_after_display");
    g.need(c, "display_clear_op_display");
    g.need(c, "paired_runs");
    g.need(c, "display_calls");
    // (display_materialised_rows is informational only: it depends on the sparse representation)
    g.need(c, "grids_with_placeholder");
    g.need(c, "paired_equal");
    g.need(c, "bfs_display");
    g.need(c, "big_screen_displays");
    g.need(c, "two_step_pairs");
}

// =====================================================================  C15
pub fn c15_compare(c: &Collector, t: &Trans, engine: &str, local: &mut Local, cont_depth: usize) {
    let (s, post) = match t.outcome {
        Ok((s, post, _)) => (s, post),
        Err(m) => {
            viol(c, "C15", engine, t, &format!("panic:{}", panic_class(m)), format!("reset panicked: {}", m));
            return;
        }
    };
    local.count("resets");
    local.count("oracle_checks");
    // the statement is relational: "equal those of a newly constructed screen of the current
    // dimensions" (what a new screen looks like is stated only for tab stops, C18, and character
    // sets, C20, and is checked there), "and every row is marked dirty"
    let newscreen = match build(post.columns, post.lines, &[]) {
        Ok(s) => s,
        Err((_, m)) => {
            viol(c, "C15", engine, t, &format!("panic:{}", panic_class(&m)), format!("Screen::new({}, {}) panicked: {}", post.columns, post.lines, m));
            return;
        }
    };
    let mut exp = snap(&newscreen);
    exp.dirty = (0..post.lines).collect();
    exp.saves = t.pre.saves.clone(); // the saved-cursor stack is the one thing RIS leaves alone
    if (post.lines, post.columns) != (t.pre.lines, t.pre.columns) {
        viol(c, "C15", engine, t, "mismatch:Geometry", format!("reset changed the geometry {}x{} -> {}x{}", t.pre.columns, t.pre.lines, post.columns, post.lines));
        return;
    }
    if *post != exp {
        let diffs = compare(&exp, post, &Default::default(), &ALL_COMPS);
        let what = diffs
            .first()
            .map(|d| format!("{:?}: {}", d.0, d.1))
            .unwrap_or_else(|| format!("dirty expected {:?} observed {:?}", exp.dirty, post.dirty));
        let class = diffs.first().map(|d| format!("{:?}", d.0)).unwrap_or_else(|| "Dirty".into());
        viol(c, "C15", engine, t, &format!("mismatch:{}", class), format!("state after reset differs from a new screen: {}", what));
        return;
    }
    // hidden residue: compare full keys (stack erased); if they differ run bounded continuations
    let mut a = s.clone();
    a.savepoints.clear();
    let b = newscreen;
    if full_key(&a) == full_key(&b) {
        local.count("reset_key_equal");
        return;
    }
    local.count("reset_key_differs");
    let ops = full_alphabet(a.columns, a.lines);
    let mut frontier: Vec<(Screen, Screen, Vec<Op>)> = vec![(a, b, vec![])];
    for _ in 0..cont_depth {
        let mut next = Vec::new();
        for (x, y, path) in &frontier {
            for op in &ops {
                if matches!(op, Op::RestoreCursor) {
                    continue;
                }
                let rx = run_op(x, op);
                let ry = run_op(y, op);
                local.transitions += 2;
                match (rx, ry) {
                    (Ok((sx, ax, _)), Ok((sy, ay, _))) => {
                        if ax != ay {
                            let diffs = compare(&ay, &ax, &Default::default(), &ALL_COMPS);
                            let mut p = path.clone();
                            p.push(op.clone());
                            viol(
                                c,
                                "C15",
                                engine,
                                t,
                                "continuation-differs",
                                format!(
                                    "after reset, continuation [{}] differs from a new screen: {}",
                                    p.iter().map(|o| o.short()).collect::<Vec<_>>().join(", "),
                                    diffs.first().map(|d| d.1.clone()).unwrap_or_default()
                                ),
                            );
                            return;
                        }
                        if next.len() < 400 {
                            let mut p = path.clone();
                            p.push(op.clone());
                            next.push((sx, sy, p));
                        }
                    }
                    (Err(_), Err(_)) => {}
                    _ => {
                        viol(c, "C15", engine, t, "continuation-panics", format!("continuation {} panics on one side only", op.short()));
                        return;
                    }
                }
            }
        }
        frontier = next;
    }
}

pub fn c15(c: &Collector, g: &mut Guard) {
    let gs = geoms(c);
    let mut spec = broad_spec(c, gs.clone());
    spec.cursors = CursorSel::Corners;
    spec.stacks = vec![0, 2];
    spec.charsets = vec![(false, "B", "0"), (true, "U", "V")];
    spec.hidden_cursor = false;
    let mut bases = gen_bases(c, &spec);
    // states after DECCOLM, resize, title, tab edits, hidden cursor
    let mut extra = Vec::new();
    for b in bases.iter().step_by(7) {
        for tail in [
            vec![Op::Sm(vec![3], true), Op::Draw("x".into())],
            vec![Op::Resize(Some(b.lines + 1), Some(b.columns + 2)), Op::Draw("y".into())],
            vec![Op::Resize(Some(1), Some(1))],
            vec![Op::SetTitle("T".into()), Op::SetIconName("I".into()), Op::Tbc(Some(3)), Op::SetTabStop, Op::Rm(vec![25], true)],
            vec![Op::Sm(vec![3], true), Op::Rm(vec![3], true), Op::Sm(vec![1049], true), Op::Sm(vec![34], false)],
        ] {
            let mut s = b.screen.clone();
            let mut ok = true;
            for op in &tail {
                if apply(&mut s, op).is_err() {
                    ok = false;
                    break;
                }
            }
            if ok && crate::snapshot::wellformed(&s).is_empty() {
                let mut script = b.script.clone();
                script.extend(tail);
                extra.push(Base { columns: b.columns, lines: b.lines, script, screen: s });
            }
        }
    }
    c.count("bases_after_deccolm_resize_title", extra.len() as u64);
    bases.extend(extra);
    // "every row is marked dirty" means something only from a set that lacks rows: every second
    // base state starts from a cleared dirty set
    for b in bases.iter_mut().step_by(2) {
        b.screen.dirty.clear();
        b.script.push(Op::ClearDirty);
    }
    let depth = if c.thorough() { 2 } else { 1 };
    sweep(
        c,
        &bases,
        |_| vec![Op::Reset, Op::Feed(vec!["\x1bc".into()], true), Op::FeedBytes(vec![b"\x1bc".to_vec()], true)],
        |c, t, local| {
            let e = if matches!(t.op, Op::Reset) { "E2.reset.api" } else { "E2.reset.parser" };
            if !matches!(t.op, Op::Reset) {
                local.count("parser_resets");
            }
            c15_compare(c, t, e, local, depth);
        },
    );
    let lb = large_bases(c, vec![Fill::F0, Fill::F1]);
    sweep(c, &lb, |_| vec![Op::Reset, Op::Feed(vec!["\x1bc".into()], true)], |c, t, local| {
        local.count("large_geometry_transitions");
        c15_compare(c, t, "E2.reset.large", local, 1);
    });
    // tab-stop edits on widths that have default stops: every set of at most 3 stops
    let mut tb: Vec<Base> = Vec::new();
    for w in [9u32, 12, 17] {
        let cols: Vec<u32> = (0..w).collect();
        let mut sets: Vec<Vec<u32>> = vec![vec![]];
        for a in &cols {
            sets.push(vec![*a]);
            for b in &cols {
                if a < b {
                    sets.push(vec![*a, *b]);
                    if c.thorough() {
                        for d in &cols {
                            if b < d {
                                sets.push(vec![*a, *b, *d]);
                            }
                        }
                    }
                }
            }
        }
        for set in sets {
            let mut script = vec![Op::Tbc(Some(3))];
            for col in &set {
                script.push(Op::Cha(Some(col + 1)));
                script.push(Op::SetTabStop);
            }
            if let Ok(s) = build(w, 1, &script) {
                tb.push(Base { columns: w, lines: 1, script, screen: s });
            }
        }
    }
    c.count("tab_edit_bases", tb.len() as u64);
    sweep(c, &tb, |_| vec![Op::Reset], |c, t, local| {
        c15_compare(c, t, "E2.reset.tabs", local, 1);
    });
    // histories: reset() from every state visited by a mixed-alphabet BFS (save/restore across
    // mode changes, resizes, DECCOLM, edits), judged model-free against a new screen
    let bdepth = if c.thorough() { 4 } else { 3 };
    let seeds = small_bfs_seeds(c, (3, 2));
    let st = crate::explore::bfs_nd(c, &seeds, bdepth, 4_000_000, mixed_alphabet, |c, t, local| {
        if matches!(t.op, Op::Reset) {
            local.count("bfs_resets");
            c15_compare(c, t, "E2.bfs.reset", local, 1);
            // "from then on the same input produces the same state as on a new screen": one more
            // step of every mixed-alphabet op on both, whatever the state key says (a cache or a
            // field the key does not know about would only show here)
            if let Ok((s, _, _)) = t.outcome {
                let mut a = s.clone();
                a.savepoints.clear();
                let b = Screen::new(a.columns, a.lines);
                for op in mixed_alphabet(&a) {
                    if matches!(op, Op::RestoreCursor) {
                        continue;
                    }
                    let (ra, rb) = (run_op(&a, &op), run_op(&b, &op));
                    local.transitions += 2;
                    local.count("continuations_after_reset");
                    if let (Ok((_, xa, _)), Ok((_, xb, _))) = (&ra, &rb) {
                        if xa != xb {
                            let diffs = compare(xb, xa, &Default::default(), &ALL_COMPS);
                            viol(
                                c,
                                "C15",
                                "E2.bfs.reset.continuation",
                                t,
                                "continuation-differs",
                                format!(
                                    "after reset, {} behaves differently than on a new screen: {}",
                                    op.short(),
                                    diffs.first().map(|d| d.1.clone()).unwrap_or_else(|| "dirty".into())
                                ),
                            );
                            break;
                        }
                    }
                }
            }
            // explored further, and never merged with states seen before (a flag the key cannot
            // see may have been left stale by exactly this reset; the saved-cursor stack survives)
            return expand_ok(t);
        }
        expand_ok(t)
    }, |op| matches!(op, Op::Reset));
    c.bound("bfs_levels_3x2", json!(st.levels));
    c.bound("geometries", json!(gs));
    g.need(c, "large_geometry_transitions");
    g.need(c, "resets");
    g.need(c, "bfs_resets");
    g.need(c, "tab_edit_bases");
    g.need(c, "parser_resets");
    g.need(c, "bases_after_deccolm_resize_title");
}

// =====================================================================  C17
fn screen_wide(t: &Trans, m: &Model) -> Option<&'static str> {
    match t.op {
        Op::Resize(..) => {
            if (m.s.lines, m.s.columns) != (t.pre.lines, t.pre.columns) {
                Some("resize")
            } else {
                None
            }
        }
        Op::Reset => Some("reset"),
        Op::AlignmentDisplay => Some("alignment display"),
        Op::Sm(v, p) | Op::Rm(v, p) => {
            let ml: Vec<u32> = v.iter().map(|x| if *p { x << 5 } else { *x }).collect();
            let on = matches!(t.op, Op::Sm(..));
            if ml.contains(&DECSCNM) && t.pre.has_mode(DECSCNM) != on {
                Some("reverse-video switch")
            } else if ml.contains(&DECCOLM) && (m.s.lines, m.s.columns) != (t.pre.lines, t.pre.columns) {
                Some("DECCOLM resize")
            } else {
                None
            }
        }
        _ => {
            if m.scrolled {
                Some("scroll")
            } else {
                None
            }
        }
    }
}

pub fn c17_judge(c: &Collector, t: &Trans, engine: &str, local: &mut Local) -> bool {
    let (_, post) = match t.outcome {
        Ok((s, post, _)) => (s, post),
        Err(_) => return false,
    };
    local.count("judged");
    local.count("oracle_checks");
    if !t.pre.dirty.is_empty() {
        // marks made since the last clear must survive later operations: every row that differs
        // from what it was when the set was last cleared (on the path that reached this state) has
        // to be in the set. Only the net change is demanded, which both readings of "changed" imply.
        if let Some(idx) = t.script.iter().rposition(|o| matches!(o, Op::ClearDirty)) {
            let tail = &t.script[idx + 1..];
            let geometry_fixed = !tail.iter().any(|o| matches!(o, Op::Resize(..))) && !matches!(t.op, Op::Resize(..) | Op::ClearDirty);
            if geometry_fixed && tail.len() <= 4 && (post.lines, post.columns) == (t.pre.lines, t.pre.columns) {
                if let Ok(b0) = build(t.columns, t.lines, &t.script[..=idx]) {
                    let b0 = snap(&b0);
                    if (b0.lines, b0.columns) == (post.lines, post.columns) {
                        local.count("since_clear_judged");
                        for y in 0..post.lines as usize {
                            // (a mark already missing before this operation is the earlier operation's fault)
                            let pre_ok = t.pre.grid[y] == b0.grid[y] || t.pre.dirty.contains(&(y as u32));
                            if pre_ok && post.grid[y] != b0.grid[y] && !post.dirty.contains(&(y as u32)) {
                                viol(
                                    c,
                                    "C17",
                                    engine,
                                    t,
                                    "mark-lost",
                                    format!(
                                        "row {} differs from what it was when the dirty set was last cleared ({} operations ago) but dirty = {:?} (it was {:?} before this operation)",
                                        y,
                                        tail.len() + 1,
                                        post.dirty,
                                        t.pre.dirty
                                    ),
                                );
                                break;
                            }
                        }
                    }
                }
            }
        }
        return expand_ok(t);
    }
    let mut m = Model::new(t.pre);
    m.apply(t.op);
    // never an index that is not a row
    if let Some(bad) = post.dirty.iter().find(|d| **d >= post.lines) {
        viol(c, "C17", engine, t, "stale-index", format!("dirty contains {} but the screen has {} lines", bad, post.lines));
        return false;
    }
    let all: Vec<u32> = (0..post.lines).collect();
    if let Some(why) = screen_wide(t, &m) {
        local.count("screen_wide");
        if post.dirty != all {
            viol(c, "C17", engine, t, &format!("screen-wide-not-all:{}", why), format!("{} must mark every row; dirty = {:?}", why, post.dirty));
            return expand_ok(t);
        }
    }
    if (post.lines, post.columns) == (t.pre.lines, t.pre.columns) {
        for y in 0..post.lines as usize {
            if post.grid[y] != t.pre.grid[y] {
                local.count("rows_changed");
                if !post.dirty.contains(&(y as u32)) {
                    let x = (0..post.columns as usize).find(|x| post.grid[y][*x] != t.pre.grid[y][*x]).unwrap();
                    viol(
                        c,
                        "C17",
                        engine,
                        t,
                        "changed-row-not-dirty",
                        format!(
                            "row {} changed (cell {}: {:?} -> {:?}) but dirty = {:?}",
                            y, x, t.pre.grid[y][x], post.grid[y][x], post.dirty
                        ),
                    );
                    break;
                }
            }
        }
    }
    expand_ok(t)
}

pub fn c17(c: &Collector, g: &mut Guard) {
    let gs = geoms(c);
    let mut spec = broad_spec(c, gs.clone());
    spec.stacks = vec![0];
    let mut bases = gen_bases(c, &spec);
    for b in bases.iter_mut() {
        b.screen.dirty.clear();
        b.script.push(Op::ClearDirty);
    }
    sweep(
        c,
        &bases,
        |b| {
            let mut v = full_alphabet(b.columns, b.lines);
            // through the parser, and both spellings of the mode numbers
            for s in ["\x1b[?5h", "\x1b[?5l", "\x1b[?3h", "\x1b[?3l", "\u{308}", "x\u{308}", "\x1bM", "\x1bD", "\n", "\x1b#8", "\x1bc", "\x1b[2J", "\x1b[@", "\x1b[P", "\x1b[L", "\x1b[M", "\x1b[X", "\x1b[K", "\x1b[1K", "ab"] {
                v.push(Op::Feed(vec![s.to_string()], true));
            }
            v.push(Op::Sm(vec![DECSCNM], false));
            v.push(Op::Rm(vec![DECSCNM], false));
            v.push(Op::Sm(vec![DECCOLM], false));
            v.push(Op::Rm(vec![DECCOLM], false));
            v
        },
        |c, t, local| {
            c17_judge(c, t, "E2.depth1.full", local);
        },
    );
    // marks survive: change one row, move to every other row, then any operation (an operation
    // that rebuilds the set instead of adding to it loses the first mark)
    let step = if c.thorough() { 2 } else { 9 };
    let mut derived: Vec<Base> = Vec::new();
    for b in bases.iter().filter(|b| b.lines >= 2).step_by(step) {
        for first in [Op::Draw("q".into()), Op::Ech(Some(1))] {
            for y in 1..=b.lines {
                let mut s2 = b.screen.clone();
                let tail = vec![first.clone(), Op::Cup(Some(y), Some(1))];
                if tail.iter().all(|o| apply(&mut s2, o).is_ok()) && !s2.dirty.is_empty() {
                    let mut script = b.script.clone();
                    script.extend(tail);
                    derived.push(Base { columns: b.columns, lines: b.lines, script, screen: s2 });
                }
            }
        }
    }
    c.count("marked_then_moved_bases", derived.len() as u64);
    sweep(c, &derived, |b| full_alphabet(b.columns, b.lines), |c, t, local| {
        c17_judge(c, t, "E2.depth2.marks-survive", local);
    });
    let mut lb = large_bases(c, vec![Fill::F0, Fill::F1]);
    for b in lb.iter_mut() {
        b.screen.dirty.clear();
        b.script.push(Op::ClearDirty);
    }
    sweep(c, &lb, |b| full_alphabet(b.columns, b.lines), |c, t, local| {
        local.count("large_geometry_transitions");
        c17_judge(c, t, "E2.depth1.large", local);
    });
    // histories: dirty cleared between steps (ClearDirty is an op), shrinks included
    let depth = if c.thorough() { 4 } else { 3 };
    let mut seeds = small_bfs_seeds(c, (3, 2));
    for b in seeds.iter_mut() {
        b.screen.dirty.clear();
        b.script.push(Op::ClearDirty);
    }
    let st = bfs(
        c,
        &seeds,
        depth,
        4_000_000,
        |s| {
            let mut v = mixed_alphabet(s);
            v.push(Op::ClearDirty);
            v
        },
        |c, t, local| {
            local.count("bfs_judged");
            // stale-index rule holds whether or not dirty was cleared
            if let Ok((_, post, _)) = t.outcome {
                if let Some(bad) = post.dirty.iter().find(|d| **d >= post.lines) {
                    viol(c, "C17", "E2.bfs", t, "stale-index", format!("dirty contains {} but the screen has {} lines", bad, post.lines));
                    return false;
                }
            }
            c17_judge(c, t, "E2.bfs", local)
        },
    );
    c.bound("bfs_levels_3x2", json!(st.levels));
    c.bound("geometries", json!(gs));
    c.bound("bfs_depth", json!(depth));
    g.need(c, "large_geometry_transitions");
    g.need(c, "judged");
    g.need(c, "screen_wide");
    g.need(c, "rows_changed");
    g.need(c, "bfs_judged");
    g.need(c, "since_clear_judged");
}

/// A width change (resize, DECCOLM) must not LOSE a tab stop (a stop that HTS set or the
/// defaults provided, visible or beyond the current width) and must not add one inside the
/// columns that already existed; what the newly added columns get is not specified.
fn stops_frame_violation(pre: &crate::snapshot::Snap, post: &crate::snapshot::Snap) -> Option<String> {
    let lost: Vec<u32> = pre.tabstops.iter().cloned().filter(|s| !post.tabstops.contains(s)).collect();
    let added_inside: Vec<u32> = post.tabstops.iter().cloned().filter(|s| !pre.tabstops.contains(s) && *s < pre.columns).collect();
    if !lost.is_empty() {
        return Some(format!("a width change lost the tab stops {:?} ({:?} -> {:?}); only TBC and reset remove stops", lost, pre.tabstops, post.tabstops));
    }
    if !added_inside.is_empty() {
        return Some(format!("a width change added the tab stops {:?} inside the existing columns ({:?} -> {:?})", added_inside, pre.tabstops, post.tabstops));
    }
    None
}

// =====================================================================  C18
fn tab_ops() -> Vec<Op> {
    let mut v = vec![Op::Tab, Op::SetTabStop, Op::Feed(vec!["\t".into()], true), Op::Feed(vec!["\x1bH".into()], true)];
    for h in [None, Some(0), Some(1), Some(2), Some(3), Some(4), Some(9999)] {
        v.push(Op::Tbc(h));
    }
    for h in ["", "0", "3", "2"] {
        v.push(csi(h, 'g'));
    }
    for h in crate::props::big_numbers() {
        v.push(csi(&h, 'g'));
    }
    with_poison(v)
}

pub fn c18(c: &Collector, g: &mut Guard) {
    // (1) defaults for every width, after construction and after reset
    let maxw = 140u32;
    for w in (1..=maxw).chain([248, 255, 256, 257, 264, 265, 300, 1000]) {
        let exp: Vec<u32> = (1..).map(|k| 8 * k).take_while(|s| *s < w).collect();
        for variant in 0..3 {
            let script: Vec<Op> = match variant {
                0 => vec![],
                1 => vec![Op::Tbc(Some(3)), Op::Cha(Some(3)), Op::SetTabStop, Op::Reset],
                _ => vec![Op::Tbc(Some(3)), Op::Feed(vec!["\x1bc".into()], true)],
            };
            c.add_transitions(1);
            c.count("oracle_checks", 1);
            match build(w, 1, &script) {
                Ok(s) => {
                    let sn = snap(&s);
                    if sn.tabstops != exp {
                        c.violation(Violation {
                            property: "C18".into(),
                            engine: "E4.defaults".into(),
                            sig: format!("defaults|mismatch:Tabstops|variant{}", variant),
                            columns: w,
                            lines: 1,
                            script,
                            op: None,
                            detail: format!("width {}: tab stops {:?}, expected {:?}", w, sn.tabstops, exp),
                            extra: json!({}),
                        });
                    } else {
                        c.count("defaults_ok", 1);
                    }
                }
                Err((_, m)) => c.violation(Violation {
                    property: "C18".into(),
                    engine: "E4.defaults".into(),
                    sig: format!("defaults|panic:{}", panic_class(&m)),
                    columns: w,
                    lines: 1,
                    script,
                    op: None,
                    detail: m,
                    extra: json!({}),
                }),
            }
        }
    }
    // (2) every subset of stops on small widths x every cursor x {HT, HTS, TBC h}
    let maxsub = if c.thorough() { 13 } else { 10 };
    let mut bases: Vec<Base> = Vec::new();
    for w in 1..=maxsub {
        for mask in 0u32..(1 << w) {
            let mut script = vec![Op::Tbc(Some(3))];
            for col in 0..w {
                if mask & (1 << col) != 0 {
                    script.push(Op::Cha(Some(col + 1)));
                    script.push(Op::SetTabStop);
                }
            }
            let s0 = match build(w, 1, &script) {
                Ok(s) => s,
                Err(_) => continue,
            };
            for x in 0..=w {
                let mut s = s0.clone();
                let mut sc = script.clone();
                let tail = if x == w { vec![Op::Cha(Some(w)), Op::Draw("w".into())] } else { vec![Op::Cha(Some(x + 1))] };
                let mut ok = true;
                for op in &tail {
                    if apply(&mut s, op).is_err() {
                        ok = false;
                    }
                }
                if ok {
                    sc.extend(tail);
                    bases.push(Base { columns: w, lines: 1, script: sc, screen: s });
                }
            }
        }
    }
    // larger widths: default, empty, full, singletons, pairs from the edge set
    let mut widths: Vec<u32> = vec![13, 16, 17, 24, 80, 132, 140, 255, 256, 257, 264, 300, 1030, 1500];
    if c.thorough() {
        widths.push(5000);
    }
    for w in widths {
        let mut edge: Vec<u32> = vec![0, 1, 7, 8, 9, w - 2, w - 1];
        if w > 250 {
            edge.extend([127, 128, 254]);
            if w > 256 {
                edge.extend([255, 256]);
            }
            // beyond fixed-size stop tables (1024- or 4096-bit bitmaps)
            edge.extend([1023u32, 1024, 1025, 4095, 4096, 4097].iter().filter(|x| **x < w));
            edge.sort_unstable();
            edge.dedup();
        }
        let mut sets: Vec<Option<Vec<u32>>> = vec![None, Some(vec![])];
        if w <= 1000 {
            sets.push(Some((0..w).collect()));
        }
        for a in &edge {
            sets.push(Some(vec![*a]));
            for b in &edge {
                if a < b && (w <= 1000 || (*a >= 1023 && *b >= 1023)) {
                    sets.push(Some(vec![*a, *b]));
                }
            }
        }
        for set in sets {
            let mut script = Vec::new();
            if let Some(cols) = &set {
                script.push(Op::Tbc(Some(3)));
                for col in cols {
                    script.push(Op::Cha(Some(col + 1)));
                    script.push(Op::SetTabStop);
                }
            }
            let s0 = match build(w, 2, &script) {
                Ok(s) => s,
                Err(_) => continue,
            };
            let xs: Vec<u32> = if c.thorough() && w <= 140 {
                (0..=w).collect()
            } else {
                let mut v = vec![0, 1, 6, 7, 8, 9, 15, 16, w / 2, w - 2, w - 1, w];
                if w > 250 {
                    v.extend([126, 127, 128, 253, 254, 255, 256, 257, 1022, 1023, 1024, 1025, 4094, 4095, 4096, 4097].iter().filter(|x| **x <= w));
                }
                v.sort_unstable();
                v.dedup();
                v
            };
            for (xi, x) in xs.into_iter().enumerate() {
                let mut s = s0.clone();
                let mut sc = script.clone();
                let mut tail = if x == w { vec![Op::Cha(Some(w)), Op::Draw("w".into())] } else { vec![Op::Cha(Some(x + 1))] };
                if xi % 2 == 1 {
                    // tab operations leave rendition and cursor visibility alone: judge them away from the defaults too
                    tail.push(Op::Rm(vec![25], true));
                    tail.push(Op::Sgr(vec![1, 31, 44, 7]));
                }
                for op in &tail {
                    let _ = apply(&mut s, op);
                }
                sc.extend(tail);
                bases.push(Base { columns: w, lines: 2, script: sc, screen: s });
            }
        }
    }
    c.count("stop_set_bases", bases.len() as u64);
    sweep_with_extras(c, &bases, 10, |_| {
        let mut v = tab_ops();
        // use the stops, reset, use them again (a cached view of the stops must not survive RIS / edits)
        for chain in ["\t\x1bc\t", "\t\x1b[3g\r\t", "\t\x1bH\r\t\t", "\t\x1b[g\r\t", "\t\x1bc\x1b[5G\x1bH\r\t"] {
            v.push(Op::Feed(vec![chain.to_string()], true));
        }
        v
    }, |c, t, local| {
        if t.pre.tabstops.iter().any(|s| *s > t.pre.cursor.x) {
            local.count("ht_with_stop_to_the_right");
        } else {
            local.count("ht_without_stop");
        }
        refine_all(c, "C18", "E4.stops", t, local);
    });
    // every TBC selector value the parser can deliver, from a few stop-set bases
    let tb: Vec<Base> = bases.iter().step_by((bases.len() / 12).max(1)).cloned().collect();
    sweep(c, &tb, |_| (0..=9999u32).map(|h| Op::Tbc(Some(h))).collect(), |c, t, local| {
        refine_all(c, "C18", "E4.all-selectors", t, local);
    });
    // (3) width changes between setting and using a stop
    let mut wb: Vec<Base> = Vec::new();
    for w0 in [10u32, 20, 132] {
        for stops in [vec![w0 - 1], vec![3, w0 - 1], vec![w0 / 2, w0 - 2], vec![]] {
            let mut script = vec![Op::Tbc(Some(3))];
            for s in &stops {
                script.push(Op::Cha(Some(s + 1)));
                script.push(Op::SetTabStop);
            }
            // HTS at the pending-wrap column
            let mut variants: Vec<Vec<Op>> = vec![vec![]];
            variants.push(vec![Op::Cha(Some(w0)), Op::Draw("w".into()), Op::SetTabStop]);
            for var in variants {
                let mut changes: Vec<Vec<Op>> = vec![vec![]];
                for w1 in [1u32, 2, w0 - 1, w0 + 1, 132, 5] {
                    changes.push(vec![Op::Resize(None, Some(w1))]);
                }
                changes.push(vec![Op::Sm(vec![3], true)]);
                changes.push(vec![Op::Sm(vec![3], true), Op::Rm(vec![3], true)]);
                changes.push(vec![Op::Sm(vec![3], true), Op::Cha(Some(100)), Op::SetTabStop, Op::Rm(vec![3], true)]);
                for ch in changes {
                    let mut sc = script.clone();
                    sc.extend(var.clone());
                    sc.extend(ch);
                    let s0 = match build(w0, 2, &sc) {
                        Ok(s) => s,
                        Err(_) => continue,
                    };
                    if !crate::snapshot::wellformed(&s0).is_empty() {
                        continue;
                    }
                    let w = s0.columns;
                    let xs: Vec<u32> = if w <= 20 { (0..=w).collect() } else { vec![0, 1, 7, 8, 9, w / 2, w - 2, w - 1, w] };
                    for x in xs {
                        let mut s = s0.clone();
                        let mut sc2 = sc.clone();
                        let tail = if x == w { vec![Op::Cha(Some(w)), Op::Draw("w".into())] } else { vec![Op::Cha(Some(x + 1))] };
                        for op in &tail {
                            let _ = apply(&mut s, op);
                        }
                        sc2.extend(tail);
                        wb.push(Base { columns: w0, lines: 2, script: sc2, screen: s });
                    }
                }
            }
        }
    }
    c.count("width_change_bases", wb.len() as u64);
    sweep(c, &wb, |_| vec![Op::Tab, Op::Feed(vec!["\t\t".into()], true)], |c, t, local| {
        if t.pre.tabstops.iter().any(|s| *s >= t.pre.columns) {
            local.count("stale_stop_beyond_width");
        }
        refine_all(c, "C18", "E4.width-change", t, local);
    });
    // (3b) the stop set is a function of the HTS / TBC / reset history only: a width change
    // (resize, DECCOLM set or reset) must neither add nor lose a stop, visible or not
    let mut rb: Vec<Base> = Vec::new();
    for w0 in [10u32, 20, 132] {
        for stops in [vec![w0 - 1], vec![3, w0 - 1], vec![w0 / 2, w0 - 2], vec![], vec![8], vec![0, 16]] {
            let mut script = vec![Op::Tbc(Some(3))];
            for st in &stops {
                if *st < w0 {
                    script.push(Op::Cha(Some(st + 1)));
                    script.push(Op::SetTabStop);
                }
            }
            if let Ok(s0) = build(w0, 2, &script) {
                rb.push(Base { columns: w0, lines: 2, script: script.clone(), screen: s0 });
            }
            let mut sc2 = script.clone();
            sc2.extend([Op::Sm(vec![3], true), Op::Cha(Some(100)), Op::SetTabStop]);
            if let Ok(s0) = build(w0, 2, &sc2) {
                rb.push(Base { columns: w0, lines: 2, script: sc2, screen: s0 });
            }
        }
        if let Ok(s0) = build(w0, 2, &[]) {
            rb.push(Base { columns: w0, lines: 2, script: vec![], screen: s0 });
        }
    }
    sweep(
        c,
        &rb,
        |b| {
            let w = b.screen.columns;
            let mut v = vec![Op::Sm(vec![3], true), Op::Rm(vec![3], true), Op::Feed(vec!["\x1b[?3h".into()], true), Op::Feed(vec!["\x1b[?3l".into()], true), Op::Resize(Some(3), None)];
            for w1 in [1u32, 2, 5, 9, 17, 80, 132, 133] {
                if w1 != w {
                    v.push(Op::Resize(None, Some(w1)));
                }
            }
            v
        },
        |c, t, local| {
            if let Ok((_, post, _)) = t.outcome {
                local.count("width_change_stop_frames");
                if let Some(m) = stops_frame_violation(t.pre, post) {
                    viol(c, "C18", "E4.width-change.frame", t, "stops-changed-by-width-change", m);
                }
            }
        },
    );
    // (4) histories of HTS / TBC / HT / reset / width changes on small widths (BFS, full-key dedup)
    let bdepth = if c.thorough() { 6 } else { 5 };
    let mut seeds: Vec<Base> = Vec::new();
    for (w, l) in [(10u32, 1u32), (9, 2), (17, 1)] {
        if let Ok(s0) = build(w, l, &[]) {
            seeds.push(Base { columns: w, lines: l, script: vec![], screen: s0 });
        }
    }
    let st = crate::explore::bfs_nd(
        c,
        &seeds,
        bdepth,
        3_000_000,
        |s| {
            let w = s.columns;
            let mut v = vec![
                Op::Tab,
                Op::SetTabStop,
                Op::Tbc(None),
                Op::Tbc(Some(3)),
                Op::Cha(Some(1)),
                Op::Cha(Some(4)),
                Op::Cha(Some(w)),
                Op::Cuf(None),
                Op::Reset,
                Op::Draw("ab".into()),
            ];
            v.push(Op::Resize(None, Some(if w > 8 { 6 } else { 12 })));
            v
        },
        |c, t, local| {
            if matches!(t.op, Op::Tab | Op::SetTabStop | Op::Tbc(_)) {
                local.count("bfs_judged");
                refine_all(c, "C18", "E4.bfs", t, local)
            } else if matches!(t.op, Op::Reset) {
                // "after reset, tab stops sit at every 8th column"
                local.count("bfs_resets");
                refine(c, "C18", "E4.bfs.reset", t, &[Comp::Tabstops], local) && expand_ok(t)
            } else if matches!(t.op, Op::Resize(..)) {
                if let Ok((_, post, _)) = t.outcome {
                    if let Some(m) = stops_frame_violation(t.pre, post) {
                        viol(c, "C18", "E4.bfs.frame", t, "stops-changed-by-width-change", m);
                    }
                }
                expand_ok(t)
            } else {
                expand_ok(t)
            }
        },
        |op| matches!(op, Op::Reset),
    );
    c.bound("bfs_levels", json!(st.levels));
    c.bound("bfs_depth", json!(bdepth));
    c.bound("widths_defaults", json!(format!("1..={}", maxw)));
    c.bound("all_subsets_up_to_width", json!(maxsub));
    // histories through one parser
    crate::props::parser_words(
        c,
        "C18",
        (10, 1),
        &["\x1bH", "\x1b[g", "\x1b[3g", "\t", "\x1bc", "\x1b[5G", "\x1b[?3h", "\x1b[?3l", "\x1b7", "\x1b8"],
        if c.thorough() { 5 } else { 4 },
        true,
    );
    g.need(c, "defaults_ok");
    g.need(c, "ht_with_stop_to_the_right");
    g.need(c, "ht_without_stop");
    g.need(c, "stale_stop_beyond_width");
    g.need(c, "width_change_stop_frames");
    g.need(c, "bfs_judged");
    g.need(c, "bfs_resets");
    g.need(c, "pre_pending_wrap");
}

/// D2 allows DECRC to land on x == columns only for a cursor that was SAVED in the pending-wrap
/// column. The savepoint does not record the width at the time of the save, so this replays the
/// script and tracks it. Some(width at the matching save) or None if the script cannot be tracked.
fn width_at_matching_save(columns: u32, lines: u32, script: &[Op]) -> Option<u32> {
    let mut s = Screen::new(columns, lines);
    let mut widths: Vec<u32> = Vec::new();
    for op in script {
        match op {
            Op::SaveCursor => widths.push(s.columns),
            Op::RestoreCursor => {
                widths.pop();
            }
            Op::Feed(..) | Op::FeedBytes(..) => return None,
            _ => {}
        }
        if apply(&mut s, op).is_err() {
            return None;
        }
        if widths.len() != s.savepoints.len() {
            return None;
        }
    }
    widths.last().copied()
}

fn c14_d2_check(c: &Collector, t: &Trans, engine: &str) {
    if !matches!(t.op, Op::RestoreCursor) {
        return;
    }
    if let (Ok((_, post, _)), Some(top)) = (t.outcome, t.pre.saves.last()) {
        if post.cursor.x == post.columns && top.cursor.x == post.columns {
            if let Some(w) = width_at_matching_save(t.columns, t.lines, t.script) {
                if top.cursor.x != w {
                    viol(
                        c,
                        "C14",
                        engine,
                        t,
                        "restored-past-the-last-column",
                        format!(
                            "DECRC left the cursor at x == columns = {} although it was saved at column {} of a {}-column screen (not in the pending-wrap column): the saved position must be clamped into the current screen",
                            post.columns, top.cursor.x, w
                        ),
                    );
                }
            }
        }
    }
}

// =====================================================================  C14
pub fn c14(c: &Collector, g: &mut Guard) {
    let gs: Vec<(u32, u32)> = if c.thorough() { vec![(1, 1), (3, 2), (3, 3), (4, 3), (5, 4)] } else { vec![(1, 1), (3, 2), (3, 3)] };
    let spec = Spec {
        geoms: gs.clone(),
        fills: vec![Fill::F0, Fill::F1],
        cursors: CursorSel::All,
        regions: RegionSel::Some,
        modesets: vec![],
        renditions: vec![vec![], vec![1, 31, 44, 7], vec![3, 4, 5, 9, 38, 5, 200]],
        stacks: vec![0, 1, 2, 3, 4],
        charsets: vec![(false, "B", "0"), (true, "U", "V")],
        hidden_cursor: false,
    };
    let bases = gen_bases(c, &spec);
    sweep_with_extras(
        c,
        &bases,
        8,
        |_| {
            let mut v = with_poison(vec![Op::SaveCursor, Op::RestoreCursor, Op::Feed(vec!["\x1b7".into()], true), Op::Feed(vec!["\x1b8".into()], true), Op::Feed(vec!["\x1b7\x1b[H\x1b[0m\x1b8".into()], true)]);
            // unknown escapes whose code point merely ends in the byte of 7 / 8 / c must not touch the stack
            for ch in ['\u{137}', '\u{138}', '\u{2038}', '\u{ff38}', '\u{1f638}', '\u{163}', '\u{237}', '9', '6'] {
                v.push(Op::Feed(vec![format!("\x1b{}", ch)], true));
                v.push(Op::Feed(vec![format!("\x1b7\x1b[H\x1b{}\x1b8", ch)], true));
            }
            v
        },
        |c, t, local| {
            if !t.pre.saves.is_empty() {
                local.count("restore_with_saved");
            } else {
                local.count("restore_empty_stack");
            }
            refine_all(c, "C14", "E2.depth1", t, local);
        },
    );
    let lb = large_bases(c, vec![Fill::F0]);
    sweep(
        c,
        &lb,
        |_| vec![Op::SaveCursor, Op::RestoreCursor, Op::Feed(vec!["\x1b7\x1b[H\x1b8".into()], true), Op::Feed(vec!["\x1b7\x1b[9999;9999H\x1b[1m\x1b8".into()], true)],
        |c, t, local| {
            local.count("large_geometry_transitions");
            refine_all(c, "C14", "E2.depth1.large", t, local);
        },
    );
    // deep nesting: 40 saves at distinct positions / renditions, then k restores for every k
    let deep_base = match build(9, 7, &[]) {
        Ok(s) => vec![Base { columns: 9, lines: 7, script: vec![], screen: s }],
        Err(_) => vec![],
    };
    sweep(
        c,
        &deep_base,
        |_| {
            let mut v = Vec::new();
            let mut pushes = String::new();
            for i in 0..4100u32 {
                pushes.push_str(&format!("\x1b[{};{}H\x1b[{}m\x1b7", 1 + i % 7, 1 + (i * 3) % 9, 30 + i % 8));
                if ![0, 1, 2, 8, 16, 31, 32, 63, 64, 127, 128, 129, 255, 256, 299, 1023, 1024, 1025, 4095, 4096, 4099].contains(&i) {
                    continue;
                }
                for k in [1u32, 2, 3, 8, 9, 16, 17, 32, 33, 40, 64, 65, 127, 128, 129, 130, 200, 256, 257, 300, 1024, 1025, 1026, 4096, 4097, 4100] {
                    if k <= i + 1 {
                        let pops = "\x1b8".repeat(k as usize);
                        v.push(Op::Feed(vec![format!("{}\x1b[H\x1b[m{}", pushes, pops)], true));
                    }
                }
            }
            v
        },
        |c, t, local| {
            local.count("deep_stack_histories");
            refine_all(c, "C14", "E2.deep-stack", t, local);
        },
    );
    // every other SEQUENCE leaves the stack unchanged too: every CSI final (with and without a
    // parameter) and every ESC final except 7 and 8, known or unknown, before a real DECRC
    let sb: Vec<Base> = bases.iter().filter(|b| !b.screen.savepoints.is_empty() && b.columns >= 3).step_by(23).cloned().collect();
    sweep(
        c,
        &sb,
        |_| {
            let mut v = Vec::new();
            for f in (0x21u8..0x7f).map(|b| b as char) {
                if !f.is_ascii_digit() && f != ';' && f != '?' && f != '$' && f != '>' {
                    v.push(Op::Feed(vec![format!("\x1b[{}\x1b8", f)], true));
                    v.push(Op::Feed(vec![format!("\x1b[2{}\x1b8", f)], true));
                }
                if f != '7' && f != '8' && f != '[' && f != ']' && f != '#' && f != '%' && f != '(' && f != ')' {
                    v.push(Op::Feed(vec![format!("\x1b{}\x1b8", f)], true));
                }
            }
            v
        },
        |c, t, local| {
            local.count("sequence_frame_checks");
            // judged on what DECRC determines (the popped stack and the reinstated cursor state): what
            // else an unlisted final does - a scroll, an erase, a feature added later - is not C14's
            // business (C03 owns "unknown finals are consumed without effect")
            refine(c, "C14", "E2.frame.sequences", t, &[Comp::Saves, Comp::CursorPos, Comp::CursorAttr, Comp::CursorHidden, Comp::Charsets], local);
        },
    );
    // every other operation leaves the stack unchanged
    let fb: Vec<Base> = bases.iter().filter(|b| !b.screen.savepoints.is_empty()).step_by(5).cloned().collect();
    sweep(
        c,
        &fb,
        |b| full_alphabet(b.columns, b.lines).into_iter().filter(|o| !matches!(o, Op::SaveCursor | Op::RestoreCursor)).collect(),
        |c, t, local| {
            if let Ok((_, post, _)) = t.outcome {
                local.count("stack_frame_checks");
                if post.saves != t.pre.saves {
                    viol(c, "C14", "E2.frame", t, "stack-changed", format!("saved-cursor stack changed by {} (depth {} -> {})", t.op.short(), t.pre.saves.len(), post.saves.len()));
                }
            }
        },
    );
    // histories save^a ; w ; restore^b
    let depth = if c.thorough() { 6 } else { 5 };
    let sspec = Spec {
        geoms: vec![(3, 3)],
        fills: vec![Fill::F0],
        cursors: CursorSel::Home,
        regions: RegionSel::NoRegion,
        modesets: vec![0],
        renditions: vec![vec![]],
        stacks: vec![0, 1],
        charsets: default_charsets(),
        hidden_cursor: false,
    };
    let seeds = gen_bases(c, &sspec);
    let st = bfs(
        c,
        &seeds,
        depth,
        if c.thorough() { 6_000_000 } else { 1_500_000 },
        |s| {
            let mut v = vec![
                Op::SaveCursor,
                Op::RestoreCursor,
                Op::Cup(Some(3), Some(3)),
                Op::Cup(Some(2), Some(1)),
                Op::Draw("abc".into()),
                Op::Sgr(vec![1]),
                Op::Sgr(vec![]),
                Op::ShiftOut,
                Op::ShiftIn,
                Op::DefineCharset("0".into(), "(".into()),
                Op::Sm(vec![6], true),
                Op::Rm(vec![6], true),
                Op::Rm(vec![7], true),
                Op::Sm(vec![7], true),
                Op::SetMargins(Some(2), Some(3)),
                Op::Rm(vec![25], true),
            ];
            if s.savepoints.len() >= 4 {
                v.remove(0);
            }
            if s.lines == 3 {
                v.push(Op::Resize(Some(2), Some(2)));
            } else {
                v.push(Op::Resize(Some(3), Some(3)));
            }
            v
        },
        |c, t, local| {
            if matches!(t.op, Op::SaveCursor | Op::RestoreCursor) {
                local.count("bfs_judged");
                if t.pre.saves.len() >= 2 && matches!(t.op, Op::RestoreCursor) {
                    local.count("nested_restore");
                }
                c14_d2_check(c, t, "E2.bfs");
                refine_all(c, "C14", "E2.bfs", t, local)
            } else {
                if let Ok((_, post, _)) = t.outcome {
                    if post.saves != t.pre.saves {
                        viol(c, "C14", "E2.bfs.frame", t, "stack-changed", format!("saved-cursor stack changed by {}", t.op.short()));
                        return false;
                    }
                }
                expand_ok(t)
            }
        },
    );
    c.bound("bfs_levels_3x3", json!(st.levels));
    c.bound("geometries", json!(gs));
    c.bound("bfs_depth", json!(depth));
    // histories through one parser (8-bit mode, so that the charset state is live)
    crate::props::parser_words(
        c,
        "C14",
        (3, 3),
        &["\x1b7", "\x1b8", "\x1b[2;2H", "\x1b[1m", "\x1b[?6h", "\x1b[?7l", "\x1bc", "\x0e", "\x1b(0", "q"],
        if c.thorough() { 5 } else { 4 },
        false,
    );
    g.need(c, "large_geometry_transitions");
    g.need(c, "restore_with_saved");
    g.need(c, "restore_empty_stack");
    g.need(c, "stack_frame_checks");
    g.need(c, "nested_restore");
    g.need(c, "deep_stack_histories");
    g.need(c, "sequence_frame_checks");
}

// =====================================================================  C12
pub fn c12(c: &Collector, g: &mut Guard) {
    let numbers: Vec<u32> = if c.thorough() {
        (0..=9999).collect()
    } else {
        let mut v: Vec<u32> = (0..=40).collect();
        v.extend([64, 96, 128, 160, 192, 224, 640, 800, 1000, 1049, 2004, 9999]);
        v
    };
    let spec = Spec {
        geoms: vec![(3, 3), (10, 2)],
        fills: vec![Fill::F0, Fill::F1],
        cursors: CursorSel::Corners,
        regions: RegionSel::Some,
        modesets: pairwise_modesets(),
        renditions: default_renditions(),
        stacks: vec![0],
        charsets: default_charsets(),
        hidden_cursor: false,
    };
    let mut bases = gen_bases(c, &spec);
    // hidden cursor, 132-column and remembered-width variants
    let mut extra = Vec::new();
    for b in bases.iter().step_by(11) {
        for tail in [
            vec![Op::Rm(vec![25], true)],
            vec![Op::Sm(vec![3], true), Op::Draw("wide".into()), Op::Cup(Some(2), Some(100))],
            vec![Op::Resize(None, Some(132)), Op::Draw("r".into())],
            // already 132 wide WITH a region and origin mode: DECCOLM keeps the width, so home is the
            // top margin, not row 0
            vec![Op::Resize(Some(4), Some(132)), Op::SetMargins(Some(2), Some(3)), Op::Sm(vec![6], true), Op::Draw("m".into())],
            vec![Op::Sm(vec![3], true), Op::SetMargins(Some(2), Some(3)), Op::Sm(vec![6], true), Op::Cup(Some(2), Some(50))],
        ] {
            let mut s = b.screen.clone();
            let mut ok = true;
            for op in &tail {
                if apply(&mut s, op).is_err() {
                    ok = false;
                    break;
                }
            }
            if ok && crate::snapshot::wellformed(&s).is_empty() {
                let mut script = b.script.clone();
                script.extend(tail);
                extra.push(Base { columns: b.columns, lines: b.lines, script, screen: s });
            }
        }
    }
    c.count("bases_132_hidden", extra.len() as u64);
    bases.extend(extra);
    // "DECSCNM ... marks all rows dirty" can only be observed from a cleared dirty set
    for b in bases.iter_mut() {
        b.screen.dirty.clear();
        b.script.push(Op::ClearDirty);
    }
    // thin the base set for the exhaustive number sweep
    let nb: Vec<Base> = if c.thorough() { bases.iter().step_by(6).cloned().collect() } else { bases.iter().step_by(3).cloned().collect() };
    c.count("number_sweep_bases", nb.len() as u64);
    let nums = numbers.clone();
    sweep(
        c,
        &nb,
        move |_| {
            let mut v = Vec::with_capacity(nums.len() * 4);
            for n in &nums {
                for private in [false, true] {
                    v.push(Op::Sm(vec![*n], private));
                    v.push(Op::Rm(vec![*n], private));
                }
            }
            v
        },
        |c, t, local| {
            refine_all(c, "C12", "E4.numbers", t, local);
        },
    );
    let lb = large_bases(c, vec![Fill::F0, Fill::F1]);
    sweep(
        c,
        &lb,
        |_| {
            let mut v = Vec::new();
            for n in [3u32, 4, 5, 6, 7, 20, 25, 255, 256, 257, 4095, 9999] {
                for private in [false, true] {
                    v.push(Op::Sm(vec![n], private));
                    v.push(Op::Rm(vec![n], private));
                }
            }
            v
        },
        |c, t, local| {
            local.count("large_geometry_transitions");
            refine_all(c, "C12", "E4.large", t, local);
        },
    );
    // every number 0..=9999 from two base states in every tier (aliasing through narrowing casts)
    let two: Vec<Base> = bases.iter().filter(|b| b.columns == 3).step_by((bases.len() / 2).max(1)).take(2).cloned().collect();
    sweep(
        c,
        &two,
        |_| {
            let mut v = Vec::with_capacity(40000);
            for n in 0..=9999u32 {
                for private in [false, true] {
                    v.push(Op::Sm(vec![n], private));
                    v.push(Op::Rm(vec![n], private));
                }
            }
            v
        },
        |c, t, local| {
            local.count("all_numbers_transitions");
            refine_all(c, "C12", "E4.all-numbers", t, local);
        },
    );
    // lists of length 1..3 over the supported modes + 2 unsupported, both spellings; repeated set/reset
    let lb: Vec<Base> = bases.iter().step_by(if c.thorough() { 9 } else { 29 }).cloned().collect();
    sweep(
        c,
        &lb,
        |_| {
            let pm: [u32; 7] = [3, 5, 6, 7, 25, 12, 1049]; // private numbers
            let am: [u32; 6] = [4, 20, 96, 160, 192, 33]; // ANSI numbers (incl. shifted aliases)
            let mut v = Vec::new();
            for (set, private) in [(&pm[..], true), (&am[..], false)] {
                for a in set {
                    for b in set {
                        v.push(Op::Sm(vec![*a, *b], private));
                        v.push(Op::Rm(vec![*a, *b], private));
                        for d in set {
                            v.push(Op::Sm(vec![*a, *b, *d], private));
                            v.push(Op::Rm(vec![*a, *b, *d], private));
                        }
                    }
                }
            }
            v.push(Op::Sm(vec![], true));
            v.push(Op::Rm(vec![], false));
            v
        },
        |c, t, local| {
            local.count("list_transitions");
            refine_all(c, "C12", "E4.lists", t, local);
        },
    );
    // through the parser
    let pb: Vec<Base> = bases.iter().step_by(if c.thorough() { 13 } else { 41 }).cloned().collect();
    let nums2: Vec<u32> = if c.thorough() { (0..=9999).collect() } else { numbers.clone() };
    sweep(
        c,
        &pb,
        move |_| {
            let mut v = Vec::new();
            for n in &nums2 {
                for q in ["", "?"] {
                    for f in ['h', 'l'] {
                        v.push(csi(&format!("{}{}", q, n), f));
                    }
                }
            }
            for s in ["\x1b[>4h", "\x1b[>4l", "\x1b[ 4h", "\x1b[4 h", "\x1b[>25l", "\x1b[ ?25l", "\x1b[>?6h", "\x1b[?>7l", "\x1b[>20h"] {
                v.push(Op::Feed(vec![s.to_string()], true));
                v.push(Op::Feed(vec![format!("ab\r{}X\n", s)], true));
            }
            for s in ["\x1b[?000025l", "\x1b[00000004h", "\x1b[?0000000000000000000007l", "\x1b[?025l\x1b[?00025h"] {
                v.push(Op::Feed(vec![s.to_string()], true));
            }
            for s in ["\x1b[?3;5h", "\x1b[4;20h", "\x1b[?6;7l", "\x1b[?25l\x1b[?25h", "\x1b[h", "\x1b[?l", "\x1b[?5h\x1b[?5h", "\x1b[?5l\x1b[?5l", "\x1b[?3l", "\x1b[?25l\x1b[4h", "\x1b[4h\x1b[?4l"] {
                v.push(Op::Feed(vec![s.to_string()], true));
            }
            // state leaking out of a sequence that ends without dispatch
            let mut w = Vec::new();
            for n in [4u32, 20, 25, 6, 7, 5] {
                for f in ['h', 'l'] {
                    w.push(csi(&format!("{}", n), f));
                    w.push(csi(&format!("?{}", n), f));
                }
            }
            v.extend(with_poison(w));
            v
        },
        |c, t, local| {
            local.count("parser_path_transitions");
            refine_all(c, "C12", "E4.parser", t, local);
        },
    );
    // interleavings with DECSC/DECRC, resize, draw
    let depth = if c.thorough() { 4 } else { 3 };
    let seeds = small_bfs_seeds(c, (3, 2));
    let st = bfs(
        c,
        &seeds,
        depth,
        4_000_000,
        |s| {
            let mut v = Vec::new();
            for (n, p) in [(3, true), (5, true), (6, true), (7, true), (25, true), (4, false), (20, false), (8, true)] {
                v.push(Op::Sm(vec![n], p));
                v.push(Op::Rm(vec![n], p));
            }
            v.push(Op::SaveCursor);
            v.push(Op::RestoreCursor);
            v.push(Op::Draw("ab".into()));
            v.push(Op::Linefeed);
            v.push(Op::SetMargins(Some(2), Some(3)));
            v.push(Op::Sgr(vec![27]));
            v.push(Op::Cup(Some(2), Some(2)));
            v.push(Op::Cup(Some(1), Some(s.columns)));
            v.push(Op::Resize(Some(s.lines), Some(if s.columns == 3 { 4 } else { 3 })));
            v
        },
        |c, t, local| {
            if matches!(t.op, Op::Sm(..) | Op::Rm(..)) {
                local.count("bfs_judged");
                refine_all(c, "C12", "E2.bfs", t, local)
            } else if matches!(t.op, Op::Draw(_) | Op::Linefeed | Op::Cup(..)) {
                // "IRM, LNM and DECAWM govern insertion, newline and autowrap; DECOM makes
                // addressing region-relative": the modes' effect on the operations they govern
                local.count("bfs_governed_ops");
                refine_all(c, "C12", "E2.bfs.governed", t, local)
            } else {
                expand_ok(t)
            }
        },
    );
    c.bound("bfs_levels_3x2", json!(st.levels));
    c.bound("mode_numbers", json!(if c.thorough() { "0..=9999 (all)".to_string() } else { format!("{:?}", numbers) }));
    // histories through one parser (a parser-side memo of the modes it already passed on)
    crate::props::parser_words(
        c,
        "C12",
        (3, 2),
        &["\x1b[?7l", "\x1b[?7h", "\x1b[?6h", "\x1b[4h", "\x1b[4l", "\x1b7", "\x1b8", "\x1bc", "ab", "\x1b[?5h"],
        if c.thorough() { 5 } else { 4 },
        true,
    );
    g.need(c, "large_geometry_transitions");
    g.need(c, "list_transitions");
    g.need(c, "parser_path_transitions");
    g.need(c, "bases_132_hidden");
    g.need(c, "reverse_video_switches");
    g.need(c, "bfs_judged");
}

// =====================================================================  C16
const C16_COMPS: [Comp; 4] = [Comp::Geometry, Comp::Grid, Comp::Margins, Comp::Saves];

pub fn c16_judge(c: &Collector, t: &Trans, engine: &str, local: &mut Local) -> bool {
    let (l1, c1) = match t.op {
        Op::Resize(a, b) => (a.unwrap_or(t.pre.lines), b.unwrap_or(t.pre.columns)),
        _ => return expand_ok(t),
    };
    local.count("resizes");
    let same = (l1, c1) == (t.pre.lines, t.pre.columns);
    match t.outcome {
        Err(m) => {
            viol(c, "C16", engine, t, &format!("panic:{}", panic_class(m)), format!("resize panicked: {}", m));
            false
        }
        Ok((s, post, _)) => {
            if same {
                local.count("same_size");
                // judged on the observable view (incl. dirty, raw cell strings); representation residue is
                // the business of the BFS (anything hidden that resurfaces later disagrees with the model)
                let _ = s;
                if crate::snapshot::snap_raw(s) != crate::snapshot::snap_raw(t.pre_screen) {
                    let diffs = compare(t.pre, post, &Default::default(), &ALL_COMPS);
                    viol(
                        c,
                        "C16",
                        engine,
                        t,
                        "same-size-not-noop",
                        format!(
                            "resize to the current size changed the state: {}",
                            diffs.first().map(|d| d.1.clone()).unwrap_or_else(|| format!("dirty {:?} -> {:?} (or representation)", t.pre.dirty, post.dirty))
                        ),
                    );
                }
                return true;
            }
            if l1 < t.pre.lines {
                local.count("shrink_lines");
            }
            if l1 > t.pre.lines || c1 > t.pre.columns {
                local.count("grow");
            }
            let mut ok = refine(c, "C16", engine, t, &C16_COMPS, local);
            let all: Vec<u32> = (0..post.lines).collect();
            if post.dirty != all {
                ok = false;
                viol(c, "C16", engine, t, "dirty-not-all", format!("after resize every row must be dirty; dirty = {:?}, lines = {}", post.dirty, post.lines));
            }
            ok
        }
    }
}

pub fn c16(c: &Collector, g: &mut Guard) {
    let gs: Vec<(u32, u32)> = if c.thorough() { crate::props::thorough_geoms() } else { vec![(1, 1), (3, 2), (4, 3)] };
    let mut spec = broad_spec(c, gs.clone());
    spec.stacks = vec![0, 1];
    spec.cursors = CursorSel::All;
    let mut bases = gen_bases(c, &spec);
    // "every row is marked dirty" means something only from a set that lacks rows
    for b in bases.iter_mut().step_by(2) {
        b.screen.dirty.clear();
        b.script.push(Op::ClearDirty);
    }
    let bases = bases;
    sweep(
        c,
        &bases,
        |b| {
            let mut v = Vec::new();
            for ll in size_dom(b.lines) {
                for cc in size_dom(b.columns) {
                    v.push(Op::Resize(Some(ll), Some(cc)));
                }
            }
            v.push(Op::Resize(None, None));
            v.push(Op::Resize(None, Some(b.columns + 1)));
            v.push(Op::Resize(Some(b.lines + 1), None));
            v.push(Op::Resize(Some(1), None));
            v.push(Op::Resize(None, Some(1)));
            v
        },
        |c, t, local| {
            c16_judge(c, t, "E2.depth1", local);
        },
    );
    let lb = large_bases(c, vec![Fill::F0, Fill::F1]);
    sweep(
        c,
        &lb,
        |b| {
            let mut v = Vec::new();
            for ll in size_dom(b.lines) {
                for cc in size_dom(b.columns) {
                    v.push(Op::Resize(Some(ll), Some(cc)));
                }
            }
            v
        },
        |c, t, local| {
            local.count("large_geometry_transitions");
            c16_judge(c, t, "E2.depth1.large", local);
        },
    );
    let hb: Vec<Base> = bases.iter().filter(|b| b.columns <= 3 && b.lines <= 2).step_by(97).take(6).cloned().collect();
    sweep(
        c,
        &hb,
        |_| {
            let mut v = Vec::new();
            for n in [9998u32, 9999, 10000, 12000, 65535, 65536, 70000] {
                v.push(Op::Resize(Some(n), None));
                v.push(Op::Resize(None, Some(n)));
            }
            v
        },
        |c, t, local| {
            local.count("huge_resizes");
            c16_judge(c, t, "E2.huge-sizes", local);
        },
    );
    // DECCOLM on a screen wider than 132 columns, then grow again: nothing may come back
    let mut wb: Vec<Base> = Vec::new();
    for b in lb.iter().filter(|b| b.columns > 132).step_by(3) {
        for tail in [vec![Op::Sm(vec![3], true)], vec![Op::Sm(vec![3], true), Op::Draw("k".into())], vec![Op::Sm(vec![3], true), Op::Rm(vec![3], true)]] {
            let mut s2 = b.screen.clone();
            let mut ok = true;
            for op in &tail {
                ok &= apply(&mut s2, op).is_ok();
            }
            if ok && crate::snapshot::wellformed(&s2).is_empty() {
                let mut script = b.script.clone();
                script.extend(tail);
                wb.push(Base { columns: b.columns, lines: b.lines, script, screen: s2 });
            }
        }
    }
    c.count("wide_deccolm_bases", wb.len() as u64);
    sweep(
        c,
        &wb,
        |b| vec![Op::Resize(None, Some(200)), Op::Resize(None, Some(260)), Op::Resize(Some(b.screen.lines + 1), Some(133)), Op::Resize(None, Some(131))],
        |c, t, local| {
            local.count("wide_deccolm_resizes");
            c16_judge(c, t, "E2.deccolm-wide", local);
        },
    );
    // "content that was discarded ... by earlier edits never reappears when the screen grows
    // again": every content-editing operation (with counts reaching past the edges, under every
    // rendition of the base states), then a grow in each direction; the cells that appear must be
    // blank, i.e. no edit may leave anything outside the visible area
    let step = if c.thorough() { 3 } else { 12 };
    let eb: Vec<&Base> = bases.iter().step_by(step).collect();
    let derived: Vec<Vec<Base>> = par_map(eb.len(), |i| {
        let b = eb[i];
        let (cc, l) = (b.screen.columns, b.screen.lines);
        let mut ops: Vec<Op> = vec![Op::Index, Op::ReverseIndex, Op::Linefeed, Op::AlignmentDisplay, Op::Tab, Op::Draw("pq".into()), Op::Draw("\u{30a2}\u{30a2}".into()), Op::Draw("e\u{301}".into())];
        for p in [None, Some(1), Some(2), Some(cc), Some(cc + 1), Some(l + 1), Some(9999)] {
            ops.push(Op::Ich(p));
            ops.push(Op::Dch(p));
            ops.push(Op::Ech(p));
            ops.push(Op::Il(p));
            ops.push(Op::Dl(p));
        }
        for h in [None, Some(1), Some(2)] {
            ops.push(Op::Ed(h));
            ops.push(Op::El(h));
        }
        let mut out = Vec::new();
        for op in ops {
            let mut s2 = b.screen.clone();
            if apply(&mut s2, &op).is_ok() && crate::snapshot::wellformed(&s2).is_empty() {
                let mut script = b.script.clone();
                script.push(op);
                out.push(Base { columns: b.columns, lines: b.lines, script, screen: s2 });
            }
        }
        out
    });
    let derived: Vec<Base> = derived.into_iter().flatten().collect();
    c.count("edit_then_grow_bases", derived.len() as u64);
    sweep(
        c,
        &derived,
        |b| {
            let (cc, l) = (b.screen.columns, b.screen.lines);
            let mut v = vec![Op::Resize(Some(l + 2), Some(cc + 2)), Op::Resize(None, Some(cc + 3)), Op::Resize(Some(l + 1), None)];
            if b.script.len() % 8 == 0 {
                v.push(Op::Resize(None, Some(cc + 10000)));
            }
            v
        },
        |c, t, local| {
            local.count("edit_then_grow");
            c16_judge(c, t, "E2.edit-then-grow", local);
        },
    );
    // sequences of resizes interleaved with the residue makers
    let depth = if c.thorough() { 4 } else { 3 };
    for gg in [(3u32, 2u32), (2, 3)] {
        let spec2 = Spec {
            geoms: vec![gg],
            fills: vec![Fill::F0, Fill::F1, Fill::F3],
            cursors: CursorSel::Corners,
            regions: RegionSel::Some,
            modesets: vec![0, M_DECOM],
            renditions: default_renditions(),
            stacks: vec![0],
            charsets: default_charsets(),
            hidden_cursor: false,
        };
        let seeds = gen_bases(c, &spec2);
        let st = bfs(
            c,
            &seeds,
            depth,
            4_000_000,
            |s| {
                let (cc, l) = (s.columns, s.lines);
                let mut v = vec![
                    Op::Ich(None),
                    Op::El(Some(1)),
                    Op::ReverseIndex,
                    Op::Index,
                    Op::Il(None),
                    Op::Dl(None),
                    Op::Draw("z".into()),
                    Op::Draw("\u{30a2}".into()),
                    Op::Cup(Some(l), Some(cc)),
                    Op::Cup(None, None),
                    Op::SetMargins(Some(1), Some(2)),
                    Op::Sm(vec![4], false),
                    Op::Resize(Some(l + 1), Some(cc)),
                    Op::Resize(Some(l), Some(cc + 1)),
                    Op::Resize(Some(l + 1), Some(cc + 1)),
                ];
                if l > 1 {
                    v.push(Op::Resize(Some(l - 1), Some(cc)));
                }
                if cc > 1 {
                    v.push(Op::Resize(Some(l), Some(cc - 1)));
                }
                if l > 1 && cc > 1 {
                    v.push(Op::Resize(Some(l - 1), Some(cc - 1)));
                }
                v
            },
            |c, t, local| {
                if matches!(t.op, Op::Resize(..)) {
                    local.count("bfs_judged");
                    if t.script.iter().any(|o| matches!(o, Op::Resize(..))) {
                        local.count("resize_after_resize");
                    }
                    c16_judge(c, t, "E2.bfs", local)
                } else {
                    expand_ok(t)
                }
            },
        );
        c.bound(&format!("bfs_levels_{}x{}", gg.0, gg.1), json!(st.levels));
    }
    // DECCOLM round trip from 10-column states with content and stops
    let mut rb = Vec::new();
    for script in [
        vec![Op::Draw("0123456789".into()), Op::Cup(Some(2), Some(4)), Op::Draw("abc".into())],
        vec![Op::SetMargins(Some(1), Some(2)), Op::Sm(vec![6], true), Op::Draw("xy".into())],
        vec![Op::Cha(Some(10)), Op::Draw("\u{30a2}".into())],
    ] {
        if let Ok(s) = build(10, 3, &script) {
            rb.push(Base { columns: 10, lines: 3, script, screen: s });
        }
    }
    sweep(
        c,
        &rb,
        |_| vec![Op::Sm(vec![3], true), Op::Feed(vec!["\x1b[?3h".into()], true), Op::Feed(vec!["\x1b[?3hwide\x1b[?3l".into()], true), Op::Rm(vec![3], true)],
        |c, t, local| {
            local.count("deccolm");
            refine_all(c, "C16", "E2.deccolm", t, local);
        },
    );
    // what the 132-column excursion left beyond the remembered width must not come back when the
    // embedder widens the screen afterwards (RM ?3 goes through the same trimming as a resize)
    for script in [
        vec![Op::Sm(vec![3], true), Op::Cup(Some(1), Some(100)), Op::Draw("Z".into()), Op::Rm(vec![3], true), Op::Resize(None, Some(120)), Op::Resize(None, Some(140))],
        vec![Op::Sgr(vec![44]), Op::Sm(vec![3], true), Op::Rm(vec![3], true), Op::Resize(None, Some(12)), Op::Resize(Some(5), Some(133))],
        vec![Op::Feed(vec!["\x1b[?3h\x1b[2;132H\u{30a2}\x1b[7m\x1b[K\x1b[?3l".into()], true), Op::Resize(None, Some(11)), Op::Resize(None, Some(132)), Op::Resize(None, Some(200))],
        vec![Op::Sm(vec![3], true), Op::Cup(Some(3), Some(11)), Op::Draw("hidden".into()), Op::Feed(vec!["\x1b[?3l".into()], true), Op::Draw("v".into()), Op::Sm(vec![3], true), Op::Resize(None, Some(20))],
    ] {
        if let Ok(scr) = build(10, 3, &[]) {
            let b = Base { columns: 10, lines: 3, script: vec![], screen: scr };
            crate::props::repeat_cycle(c, "C16", "E2.deccolm-then-grow", &b, &script, 1);
        }
    }
    // histories without merging around scrolls and resizes (a private scratch frame or row cache
    // that survives a shrink and is swapped back in by the next scroll)
    let tscript = vec![Op::Draw("ab".into()), Op::Cup(Some(2), Some(1)), Op::Draw("cd".into()), Op::Cup(Some(3), Some(1)), Op::Draw("e".into())];
    let tbase: Vec<Base> = build(2, 3, &tscript).ok().map(|s| Base { columns: 2, lines: 3, script: tscript.clone(), screen: s }).into_iter().collect();
    crate::props::history_tree_from(
        c,
        "C16",
        tbase,
        vec![
            Op::Index,
            Op::ReverseIndex,
            Op::Resize(Some(2), None),
            Op::Resize(Some(3), None),
            Op::Resize(Some(4), None),
            Op::Resize(None, Some(1)),
            Op::Resize(None, Some(3)),
            Op::Cup(Some(9), Some(1)),
            Op::Cup(Some(1), Some(2)),
            Op::Draw("k".into()),
        ],
        if c.thorough() { 6 } else { 5 },
        &|_| false,
    );
    c.bound("geometries", json!(gs));
    c.bound("bfs_depth", json!(depth));
    g.need(c, "tree_judged");
    g.need(c, "repeated_steps");
    g.need(c, "wide_deccolm_resizes");
    g.need(c, "huge_resizes");
    g.need(c, "large_geometry_transitions");
    g.need(c, "same_size");
    g.need(c, "shrink_lines");
    g.need(c, "grow");
    g.need(c, "resize_after_resize");
    g.need(c, "edit_then_grow");
    g.need(c, "deccolm");
    g.need(c, "pre_region");
}

// =====================================================================  C08
fn rendition_bases(c: &Collector, all: bool) -> Vec<Base> {
    let mut v = Vec::new();
    let fgs: [&[u32]; 3] = [&[], &[31], &[38, 5, 100]];
    let bgs: [&[u32]; 3] = [&[], &[104], &[48, 2, 1, 2, 3]];
    let flag_codes = [1u32, 3, 4, 5, 7, 9];
    let masks: Vec<u32> = if all { (0..64).collect() } else { vec![0, 63, 0b010101, 0b101010] };
    // under DECSCNM, SGR 0 means "default + reverse". These two come first so that every family
    // that takes only the first few base states (pairs, extended forms, long lists, parser path)
    // folds its lists from a reverse-video state as well.
    for script in [vec![Op::Sm(vec![5], true)], vec![Op::Sm(vec![5], true), Op::Sgr(vec![27, 1])]] {
        if let Ok(s) = build(3, 1, &script) {
            v.push(Base { columns: 3, lines: 1, script, screen: s });
        }
    }
    for mask in masks {
        for fg in fgs.iter() {
            for bg in bgs.iter() {
                let mut attrs: Vec<u32> = Vec::new();
                for (i, code) in flag_codes.iter().enumerate() {
                    if mask & (1 << i) != 0 {
                        attrs.push(*code);
                    }
                }
                attrs.extend_from_slice(fg);
                attrs.extend_from_slice(bg);
                let mut script = vec![Op::Draw("kk".into())];
                if !attrs.is_empty() {
                    script.push(Op::Sgr(attrs));
                }
                if let Ok(s) = build(3, 1, &script) {
                    v.push(Base { columns: 3, lines: 1, script, screen: s });
                }
            }
        }
    }
    c.count("rendition_bases", v.len() as u64);
    v
}

pub fn c08_judge(c: &Collector, t: &Trans, engine: &str, local: &mut Local) {
    if !refine_all(c, "C08", engine, t, local) {
        return;
    }
    if let Ok((s, post, _)) = t.outcome {
        if post.cursor.attr != t.pre.cursor.attr {
            local.count("rendition_changed");
        }
        // cells drawn afterwards carry exactly that rendition
        let mut s2 = s.clone();
        if apply(&mut s2, &Op::Cup(None, None)).is_ok() && apply(&mut s2, &Op::Draw("x".into())).is_ok() {
            let sn = snap(&s2);
            let cell = &sn.grid[0][0];
            let exp = post.cursor.attr.with_data("x");
            local.count("drawn_after");
            if *cell != exp {
                viol(c, "C08", engine, t, "drawn-cell-rendition", format!("cell drawn after SGR is {:?}, expected {:?}", cell, exp));
            }
            if !crate::snapshot::legal_colour(cell.fg.as_str()) || !crate::snapshot::legal_colour(cell.bg.as_str()) {
                viol(c, "C08", engine, t, "illegal-colour", format!("cell drawn after SGR has colour {}/{}", cell.fg.as_str(), cell.bg.as_str()));
            }
        }
        // a double-width character drawn over existing cells: both of its cells carry the rendition
        let mut s3 = s.clone();
        if apply(&mut s3, &Op::Cup(None, None)).is_ok() && apply(&mut s3, &Op::Draw("\u{30a2}".into())).is_ok() {
            let sn = snap(&s3);
            let (lead, ph) = (&sn.grid[0][0], &sn.grid[0][1]);
            if *lead != post.cursor.attr.with_data("\u{30a2}") || *ph != post.cursor.attr.with_data("") {
                viol(c, "C08", engine, t, "drawn-wide-cell-rendition", format!("wide character drawn after SGR: cells {:?} {:?}, expected rendition {:?}", lead, ph, post.cursor.attr));
            }
        }
    }
}

pub fn documented_sgr_codes() -> Vec<u32> {
    let mut v: Vec<u32> = vec![0, 1, 3, 4, 5, 7, 9, 22, 23, 24, 25, 27, 29, 38, 48, 2, 99, 39, 49];
    v.extend(30..=37);
    v.extend(40..=47);
    v.extend(90..=97);
    v.extend(100..=107);
    v
}

pub fn c08(c: &Collector, g: &mut Guard) {
    let bases_all = rendition_bases(c, true);
    let bases_few = rendition_bases(c, false);
    // (1) every single code 0..=9999
    // (both tiers: from every rendition base; the sweep costs about a second)
    let b1 = &bases_all;
    sweep(c, b1, |_| (0..=9999u32).map(|k| Op::Sgr(vec![k])).collect(), |c, t, local| {
        c08_judge(c, t, "E4.single", local);
    });
    // (2) pairs over the documented codes; triples over a core
    let codes = documented_sgr_codes();
    let core: Vec<u32> = vec![0, 1, 7, 22, 27, 31, 39, 44, 49, 91, 104, 38, 48, 5, 2, 99, 255, 256, 16, 232, 3, 9, 4, 25];
    // quick: pairs and core triples from 40 bases; thorough: pairs and core triples from every base,
    // triples over all documented codes from 40
    let thorough = c.thorough();
    let b2: Vec<Base> = if thorough { bases_all.clone() } else { bases_few.iter().take(40).cloned().collect() };
    let codes2 = codes.clone();
    let core2 = core.clone();
    sweep(
        c,
        &b2,
        move |_| {
            let mut v = Vec::new();
            for a in &codes2 {
                for b in &codes2 {
                    v.push(Op::Sgr(vec![*a, *b]));
                }
            }
            for a in &core2 {
                for b in &core2 {
                    for d in &core2 {
                        v.push(Op::Sgr(vec![*a, *b, *d]));
                    }
                }
            }
            v
        },
        |c, t, local| {
            local.count("tuples");
            c08_judge(c, t, "E4.tuples", local);
        },
    );
    if thorough {
        let b2t: Vec<Base> = bases_few.iter().take(40).cloned().collect();
        let codes2 = codes.clone();
        sweep(
            c,
            &b2t,
            move |_| {
                let mut v = Vec::new();
                for a in &codes2 {
                    for b in &codes2 {
                        for d in &codes2 {
                            v.push(Op::Sgr(vec![*a, *b, *d]));
                        }
                    }
                }
                v
            },
            |c, t, local| {
                local.count("all_triples");
                c08_judge(c, t, "E4.triples", local);
            },
        );
    }
    // (3) extended colour forms with every truncation, followed by a trailing 1
    let b3: Vec<Base> = bases_few.iter().take(if c.thorough() { 38 } else { 12 }).cloned().collect();
    sweep(
        c,
        &b3,
        move |_| {
            let mut v = Vec::new();
            let comp: Vec<u32> = (0..=300).chain([9999]).collect();
            for key in [38u32, 48] {
                for n in &comp {
                    v.push(Op::Sgr(vec![key, 5, *n]));
                    v.push(Op::Sgr(vec![key, 5, *n, 1]));
                    v.push(Op::Sgr(vec![key, *n]));
                    v.push(Op::Sgr(vec![key, *n, 1]));
                    v.push(Op::Sgr(vec![key, *n, 4, 9, 1]));
                    {
                        v.push(Op::Sgr(vec![key, 2, *n, 7, 9]));
                        v.push(Op::Sgr(vec![key, 2, 7, *n, 9]));
                        v.push(Op::Sgr(vec![key, 2, 7, 9, *n]));
                        v.push(Op::Sgr(vec![key, 2, *n, 7, 9, 1]));
                    }
                }
                for r in [0u32, 255, 256] {
                    for gg in [0u32, 255, 256] {
                        for b in [0u32, 255, 256] {
                            v.push(Op::Sgr(vec![key, 2, r, gg, b]));
                            v.push(Op::Sgr(vec![key, 2, r, gg, b, 4]));
                        }
                    }
                }
                // truncated tails
                for tail in [vec![], vec![5], vec![2], vec![2, 1], vec![2, 1, 2], vec![3], vec![3, 1], vec![5, 1]] {
                    let mut a = vec![key];
                    a.extend(tail.clone());
                    v.push(Op::Sgr(a.clone()));
                    let mut b = vec![1];
                    b.extend(a);
                    v.push(Op::Sgr(b));
                }
            }
            v
        },
        |c, t, local| {
            local.count("extended_forms");
            c08_judge(c, t, "E4.extended", local);
        },
    );
    // (3b) long lists (fixed-size parameter tables, recursion depth, quadratic folds)
    let b3b: Vec<Base> = bases_few.iter().take(3).cloned().collect();
    sweep(
        c,
        &b3b,
        |_| {
            let mut v = Vec::new();
            for n in [15usize, 16, 17, 31, 32, 33, 64, 65, 100, 255, 256, 257, 1000] {
                let mut a = vec![0u32; n - 3];
                a.extend([1, 4, 7]);
                v.push(Op::Sgr(a.clone()));
                v.push(csi(&a.iter().map(|x| x.to_string()).collect::<Vec<_>>().join(";"), 'm'));
                let mut b: Vec<u32> = (0..n as u32 - 5).map(|i| 30 + (i % 8)).collect();
                b.extend([38, 2, 1, 2, 3]);
                v.push(Op::Sgr(b.clone()));
                v.push(csi(&b.iter().map(|x| x.to_string()).collect::<Vec<_>>().join(";"), 'm'));
                let mut d: Vec<u32> = vec![38; n - 1];
                d.push(5);
                v.push(Op::Sgr(d));
            }
            v
        },
        |c, t, local| {
            local.count("long_lists");
            c08_judge(c, t, "E4.long-lists", local);
        },
    );
    // (4) through the parser
    let b4: Vec<Base> = bases_few.iter().take(if c.thorough() { 38 } else { 6 }).cloned().collect();
    let codes3 = codes.clone();
    sweep(
        c,
        &b4,
        move |_| {
            let mut v = vec![csi("", 'm'), csi("0", 'm'), csi(";", 'm'), csi("1;", 'm'), csi(";1", 'm')];
            for a in &codes3 {
                v.push(csi(&format!("{}", a), 'm'));
                for b in [1u32, 31, 5, 2, 0] {
                    v.push(csi(&format!("{};{}", a, b), 'm'));
                }
            }
            for n in [0u32, 15, 16, 196, 231, 232, 255, 256, 9999] {
                v.push(csi(&format!("38;5;{}", n), 'm'));
                v.push(csi(&format!("48;5;{};1", n), 'm'));
                v.push(csi(&format!("38;2;{};0;255", n), 'm'));
            }
            v.push(csi("38;2;1;2", 'm'));
            v.push(csi("38;5", 'm'));
            v.push(csi("99999999999999999999", 'm'));
            for z in ["00001", "000031", "000048;00005;0000200", "000000", "0000038;000002;0000001;02;3", "00000000000000000007", "10000", "00009999"] {
                v.push(csi(z, 'm'));
            }
            with_poison(v)
        },
        |c, t, local| {
            local.count("parser_path_transitions");
            c08_judge(c, t, "E4.parser", local);
        },
    );
    // (5) histories without merging: every site that changes the rendition besides SGR (DECRC,
    // reset, DECSCNM) between SGR calls - a memo of the last SGR transition must see them all
    history_tree_j(
        c,
        "C08",
        (3, 1),
        vec![
            Op::Sgr(vec![9]),
            Op::Sgr(vec![0]),
            Op::Sgr(vec![1]),
            Op::Sgr(vec![31, 44]),
            Op::SaveCursor,
            Op::RestoreCursor,
            Op::Reset,
            Op::Sm(vec![5], true),
        ],
        if c.thorough() { 7 } else { 6 },
        &|_| false,
    );
    // palette: all 256 entries both keys (independent computation)
    for n in 0..256u32 {
        let _ = tables::palette(n);
    }
    c.bound("single_codes", json!("0..=9999 from every rendition base"));
    c.bound("rendition_bases", json!(b1.len()));
    // histories through one parser (a parser-side memo of the last SGR list)
    crate::props::parser_words(
        c,
        "C08",
        (3, 1),
        &["\x1b[1m", "\x1b[0m", "\x1b[31;44m", "\x1b[9m", "\x1b7", "\x1b8", "\x1bc", "\x1b[?5h", "x", "\x1b[m"],
        if c.thorough() { 5 } else { 4 },
        true,
    );
    g.need(c, "rendition_changed");
    g.need(c, "drawn_after");
    g.need(c, "extended_forms");
    g.need(c, "long_lists");
    g.need(c, "tuples");
    g.need(c, "tree_judged");
    g.need(c, "parser_path_transitions");
}

// =====================================================================  C20
pub fn c20(c: &Collector, g: &mut Guard) {
    // (0) the published tables vs the crate's public constants and what define_charset installs
    use memterm::charset::{IBMPC_MAP, LAT1_MAP, VAX42_MAP, VT100_MAP};
    let consts: [(&str, &[char; 256], crate::snapshot::CsId); 4] = [
        ("B", &LAT1_MAP, crate::snapshot::CsId::Lat1),
        ("0", &VT100_MAP, crate::snapshot::CsId::Vt100),
        ("U", &IBMPC_MAP, crate::snapshot::CsId::Ibmpc),
        ("V", &VAX42_MAP, crate::snapshot::CsId::Vax42),
    ];
    for (code, table, id) in consts.iter() {
        for slot in ["(", ")"] {
            let script = vec![Op::DefineCharset(code.to_string(), slot.to_string())];
            match build(2, 1, &script) {
                Ok(s) => {
                    let installed = if slot == "(" { &s.g0_charset } else { &s.g1_charset };
                    for i in 0..256u32 {
                        c.add_transitions(1);
                        c.count("oracle_checks", 1);
                        let exp = tables::table_entry(id, i);
                        if installed[i as usize] != exp || table[i as usize] != exp {
                            c.violation(Violation {
                                property: "C20".into(),
                                engine: "E4.tables".into(),
                                sig: format!("table|mismatch|{}", code),
                                columns: 2,
                                lines: 1,
                                script: script.clone(),
                                op: None,
                                detail: format!(
                                    "table {} entry 0x{:02x}: installed U+{:04X}, constant U+{:04X}, published U+{:04X}",
                                    code, i, installed[i as usize] as u32, table[i as usize] as u32, exp as u32
                                ),
                                extra: json!({}),
                            });
                            break;
                        } else {
                            c.count("table_entries_ok", 1);
                        }
                    }
                }
                Err((_, m)) => c.violation(Violation {
                    property: "C20".into(),
                    engine: "E4.tables".into(),
                    sig: format!("define_charset|panic:{}", panic_class(&m)),
                    columns: 2,
                    lines: 1,
                    script,
                    op: None,
                    detail: m,
                    extra: json!({}),
                }),
            }
        }
    }
    // (1) API: 256 code points x 4 tables x {G0,G1} x {SI,SO}
    let mut bases = Vec::new();
    for code in ["B", "0", "U", "V"] {
        for slot in ["(", ")"] {
            for shift in [Op::ShiftIn, Op::ShiftOut] {
                let script = vec![Op::DefineCharset(code.into(), slot.into()), shift.clone()];
                if let Ok(s) = build(3, 2, &script) {
                    bases.push(Base { columns: 3, lines: 2, script, screen: s });
                }
            }
        }
    }
    // defaults (G0 Latin-1, G1 DEC graphics) and unsupported designators
    for script in [
        vec![],
        vec![Op::ShiftOut],
        vec![Op::ShiftOut, Op::ShiftIn],
        vec![Op::DefineCharset("Z".into(), "(".into())],
        vec![Op::DefineCharset("0".into(), "(".into()), Op::DefineCharset("A".into(), "(".into())],
        vec![Op::DefineCharset("0".into(), "*".into())],
        vec![Op::DefineCharset("U".into(), ")".into()), Op::DefineCharset("".into(), ")".into()), Op::ShiftOut],
    ] {
        if let Ok(s) = build(3, 2, &script) {
            bases.push(Base { columns: 3, lines: 2, script, screen: s });
        }
    }
    sweep(
        c,
        &bases,
        |_| {
            let mut v = Vec::new();
            for cp in 0..=255u32 {
                v.push(Op::Draw(char::from_u32(cp).unwrap().to_string()));
            }
            for cp in [256u32, 0x2500, 0xfffd, 0x1f600, 0x30a2] {
                v.push(Op::Draw(char::from_u32(cp).unwrap().to_string()));
            }
            v.push(Op::Draw("a\u{100}q".into()));
            for code in ["B", "0", "U", "V", "Z", "A", "1", "2", "K", ""] {
                for slot in ["(", ")", "*", "+"] {
                    v.push(Op::DefineCharset(code.into(), slot.into()));
                }
            }
            v.push(Op::ShiftIn);
            v.push(Op::ShiftOut);
            v
        },
        |c, t, local| {
            if let Ok((_, post, _)) = t.outcome {
                if post.grid != t.pre.grid {
                    local.count("visible_translations");
                }
            }
            refine_all(c, "C20", "E4.api", t, local);
        },
    );
    // (2) through the parser, 8-bit mode: ESC ( c / ESC ) c, SO, SI, then each byte
    let fresh_base = vec![Base { columns: 3, lines: 2, script: vec![], screen: Screen::new(3, 2) }];
    sweep(
        c,
        &fresh_base,
        |_| {
            let mut v = Vec::new();
            for code in [b'B', b'0', b'U', b'V', b'Z'] {
                for slot in [b'(', b')'] {
                    for shift in [0x0fu8, 0x0e] {
                        let mut pre = vec![0x1b, slot, code, shift];
                        for b in 0x00..=0xffu32 {
                            if b == 0x9b || b == 0x9d || (0x07..=0x0f).contains(&b) || b == 0x1b {
                                continue; // C1 CSI / OSC introducers in 8-bit mode; C0 controls with a function
                            }
                            let mut s = pre.clone();
                            s.push(b as u8);
                            v.push(Op::FeedBytes(vec![s], false));
                        }
                        pre.push(b'q');
                        v.push(Op::FeedBytes(vec![pre[..2].to_vec(), pre[2..].to_vec()], false));
                    }
                }
            }
            // UTF-8 mode: shifts and designators are ignored
            for s in ["\x1b(0q", "\x1b)0\x0eq", "\x0eq\x0fq", "\x1b(Uq\u{e9}", "\x1b)Vq"] {
                v.push(Op::Feed(vec![s.to_string()], true));
                v.push(Op::FeedBytes(vec![s.as_bytes().to_vec()], true));
            }
            // char-level parser in 8-bit mode
            for s in ["\x1b(0q", "\x1b)0\x0eq\x0fq", "\x1b(U\u{e9}", "\x1b)V\x0e!"] {
                v.push(Op::Feed(vec![s.to_string()], false));
            }
            // designators whose code point merely ends in the byte of B / 0 / U / V
            for ch in ['\u{142}', '\u{130}', '\u{155}', '\u{156}', '\u{242}', '\u{2042}', '\u{ff30}', '\u{1f655}'] {
                v.push(Op::DefineCharset(ch.to_string(), "(".into()));
                v.push(Op::DefineCharset(ch.to_string(), ")".into()));
                v.push(Op::Feed(vec![format!("\x1b({}\u{e9}q", ch)], false));
                v.push(Op::Feed(vec![format!("\x1b){}\x0e\u{e9}q", ch)], false));
            }
            // long runs of charset controls between two draws (revision counters that wrap)
            for n in [254usize, 255, 256, 257, 511, 512, 513] {
                v.push(Op::Feed(vec![format!("q\x1b(0{}q", "\x0f".repeat(n))], false));
                v.push(Op::Feed(vec![format!("q\x1b)U\x0e{}\u{e9}", "\x0f\x0e".repeat(n / 2))], false));
                v.push(Op::Feed(vec![format!("q\x1b(U{}\u{e9}", "\x1b(U".repeat(n))], false));
                v.push(Op::Feed(vec![format!("\x1b(0q{}q", "\x1b7\x1b8".repeat(n / 2))], false));
            }
            // ESC % (select other coding system) is consumed without effect: the stream cannot leave
            // or enter UTF-8 mode by itself, only the embedder can
            for s in ["\x1b%@\x1b(0q\x0eq\x0fq", "\x1b%@\x0eq", "\x1b%@\x1b)U\x0e\u{e9}", "\x1b%8\x1b(0q", "\x1b%Gq\x0eq"] {
                v.push(Op::Feed(vec![s.to_string()], true));
                v.push(Op::FeedBytes(vec![s.as_bytes().to_vec()], true));
                v.push(Op::FeedBytes(vec![s.as_bytes()[..3].to_vec(), s.as_bytes()[3..].to_vec()], true));
            }
            for s in ["\x1b%G\x1b(0q\x0eq\x0fq", "\x1b%8\x0eq", "\x1b%@\x1b(0q"] {
                v.push(Op::Feed(vec![s.to_string()], false));
                v.push(Op::FeedBytes(vec![s.as_bytes().to_vec()], false));
            }
            // shifts / designators in odd places: inside a CSI, inside an OSC string, after ESC
            for s in ["\x1b[\x0eHq", "\x1b[5\x0fCq", "\x0e\x1b[\x0fHq", "\x1b]0;a\x0eb\x07q", "\x1b\x0eq", "\x1b[\x1b(0q", "\x1b(\x0eq", "\x1b)0\x1b[\x0e;Hq"] {
                v.push(Op::Feed(vec![s.to_string()], true));
                v.push(Op::Feed(vec![s.to_string()], false));
                v.push(Op::FeedBytes(vec![s.as_bytes().to_vec()], true));
                v.push(Op::FeedBytes(vec![s.as_bytes().to_vec()], false));
            }
            v
        },
        |c, t, local| {
            local.count("parser_path_transitions");
            if let Op::FeedBytes(_, false) = t.op {
                if let Ok((_, post, _)) = t.outcome {
                    if post.g0 != t.pre.g0 || post.g1 != t.pre.g1 {
                        local.count("parser_designated");
                    }
                }
            }
            refine_all(c, "C20", "E4.parser", t, local);
        },
    );
    history_tree_j(
        c,
        "C20",
        (3, 1),
        vec![
            Op::DefineCharset("0".into(), "(".into()),
            Op::DefineCharset("B".into(), "(".into()),
            Op::DefineCharset("U".into(), ")".into()),
            Op::ShiftOut,
            Op::ShiftIn,
            Op::SaveCursor,
            Op::RestoreCursor,
            Op::Reset,
            Op::Draw("q\u{e9}".into()),
        ],
        if c.thorough() { 6 } else { 5 },
        // G0 / G1 hold what was designated: DECSC / DECRC / RIS inside the history are judged too
        &|op| matches!(op, Op::Draw(_) | Op::SaveCursor | Op::RestoreCursor | Op::Reset),
    );
    // (1b) code points above 255 are not translated, whatever they are: every scalar value
    crate::props::unicode_sweep(
        c,
        "C20",
        "E4.unicode",
        vec![
            vec![Op::DefineCharset("U".into(), "(".into())],
            vec![Op::DefineCharset("0".into(), "(".into())],
            vec![Op::DefineCharset("V".into(), ")".into()), Op::ShiftOut],
        ],
        (6, 1),
    );
    // (2b) UTF-8 mode ignores shifts and designators from EVERY charset state, not just the default
    // one (where an executed SI or `ESC ) 0` would change nothing)
    let mut ub = Vec::new();
    for script in [
        vec![Op::ShiftOut],
        vec![Op::DefineCharset("U".into(), ")".into()), Op::ShiftOut],
        vec![Op::DefineCharset("0".into(), "(".into())],
        vec![Op::DefineCharset("V".into(), "(".into()), Op::DefineCharset("B".into(), ")".into()), Op::ShiftOut, Op::ShiftIn],
    ] {
        if let Ok(s) = build(4, 2, &script) {
            ub.push(Base { columns: 4, lines: 2, script, screen: s });
        }
    }
    sweep(
        c,
        &ub,
        |_| {
            let mut v = Vec::new();
            for s in ["\x0fq", "\x0eq", "\x0e\x0fq", "\x1b(Bq", "\x1b)Bq", "\x1b(0q", "\x1b)0q", "\x1b(Uq\x0e\x0f\u{e9}", "\x1b)Vq", "\x1b[\x0fHq", "\x1b]2;t\x0f\x07q"] {
                v.push(Op::Feed(vec![s.to_string()], true));
                v.push(Op::FeedBytes(vec![s.as_bytes().to_vec()], true));
                v.push(Op::Feed(vec![s.to_string()], false));
            }
            v
        },
        |c, t, local| {
            local.count("utf8_from_shifted_states");
            refine_all(c, "C20", "E4.parser.shifted", t, local);
        },
    );
    // the same histories through one parser in 8-bit mode (a parser-side memo of designators)
    crate::props::parser_words(
        c,
        "C20",
        (4, 1),
        &["\x1b(0", "\x1b(B", "\x1b)U", "\x0e", "\x0f", "\x1b7", "\x1b8", "\x1bc", "q\u{e9}"],
        if c.thorough() { 6 } else { 5 },
        false,
    );
    // after every history of charset operations the drawn glyph must follow the model: the tree
    // judges the charset ops themselves; drawing is judged from every leaf by the sweeps above
    c.bound("code_points", json!("0..=255 x 4 tables x {G0,G1} x {SI,SO}; 256, 0x2500, 0xFFFD, astral"));
    g.need(c, "table_entries_ok");
    g.need(c, "visible_translations");
    g.need(c, "parser_path_transitions");
    g.need(c, "parser_designated");
    g.need(c, "utf8_from_shifted_states");
    g.need(c, "unicode_draws");
    g.need(c, "parser_words");
}

#[allow(dead_code)]
fn unused(_: &dyn ParserListener) {}
