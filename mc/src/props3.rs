//! Parser-side engines: E1 (grammar, real `Parser` + recording listener),
//! E3 (bytes, real `ByteParser`), and their checks C03, C19, C11, C02.

use std::collections::HashSet;
use std::hash::{Hash, Hasher};
use std::panic::{catch_unwind, AssertUnwindSafe};
use std::sync::{Arc, Mutex};
use std::time::Duration;

use memterm::byte_parser::ByteParser;
use memterm::parser::Parser;
use memterm::parser_listener::ParserListener;
use memterm::screen::Screen;
use serde_json::json;

use crate::isolate::fork_map;
use crate::ops::{esc, hex, take_panic, Op, IN_SUBJECT};
use crate::props::Guard;
use crate::recog::{normalise, recognise};
use crate::report::{Collector, Violation};
use crate::snapshot::{snap, Snap};
use crate::utf8ref;

/// Recording listener: every call becomes an `Op`. The dispatch tables
/// (escape_dispatch / basic_dispatch / csi_dispatch) are NOT overridden: they are
/// part of what is checked.
#[derive(Default)]
pub struct Rec {
    pub ev: Vec<Op>,
}

impl ParserListener for Rec {
    fn alignment_display(&mut self) {
        self.ev.push(Op::AlignmentDisplay)
    }
    fn define_charset(&mut self, code: &str, mode: &str) {
        self.ev.push(Op::DefineCharset(code.into(), mode.into()))
    }
    fn reset(&mut self) {
        self.ev.push(Op::Reset)
    }
    fn index(&mut self) {
        self.ev.push(Op::Index)
    }
    fn linefeed(&mut self) {
        self.ev.push(Op::Linefeed)
    }
    fn reverse_index(&mut self) {
        self.ev.push(Op::ReverseIndex)
    }
    fn set_tab_stop(&mut self) {
        self.ev.push(Op::SetTabStop)
    }
    fn save_cursor(&mut self) {
        self.ev.push(Op::SaveCursor)
    }
    fn restore_cursor(&mut self) {
        self.ev.push(Op::RestoreCursor)
    }
    fn shift_out(&mut self) {
        self.ev.push(Op::ShiftOut)
    }
    fn shift_in(&mut self) {
        self.ev.push(Op::ShiftIn)
    }
    fn bell(&mut self) {
        self.ev.push(Op::Bell)
    }
    fn backspace(&mut self) {
        self.ev.push(Op::Backspace)
    }
    fn tab(&mut self) {
        self.ev.push(Op::Tab)
    }
    fn cariage_return(&mut self) {
        self.ev.push(Op::CarriageReturn)
    }
    fn draw(&mut self, input: &str) {
        self.ev.push(Op::Draw(input.into()))
    }
    fn insert_characters(&mut self, count: Option<u32>) {
        self.ev.push(Op::Ich(count))
    }
    fn cursor_up(&mut self, count: Option<u32>) {
        self.ev.push(Op::Cuu(count))
    }
    fn cursor_down(&mut self, count: Option<u32>) {
        self.ev.push(Op::Cud(count))
    }
    fn cursor_forward(&mut self, count: Option<u32>) {
        self.ev.push(Op::Cuf(count))
    }
    fn cursor_back(&mut self, count: Option<u32>) {
        self.ev.push(Op::Cub(count))
    }
    fn cursor_down1(&mut self, count: Option<u32>) {
        self.ev.push(Op::Cnl(count))
    }
    fn cursor_up1(&mut self, count: Option<u32>) {
        self.ev.push(Op::Cpl(count))
    }
    fn cursor_to_column(&mut self, character: Option<u32>) {
        self.ev.push(Op::Cha(character))
    }
    fn cursor_position(&mut self, line: Option<u32>, character: Option<u32>) {
        self.ev.push(Op::Cup(line, character))
    }
    fn erase_in_display(&mut self, how: Option<u32>, _private: Option<bool>) {
        self.ev.push(Op::Ed(how))
    }
    fn erase_in_line(&mut self, how: Option<u32>, _private: Option<bool>) {
        self.ev.push(Op::El(how))
    }
    fn insert_lines(&mut self, count: Option<u32>) {
        self.ev.push(Op::Il(count))
    }
    fn delete_lines(&mut self, count: Option<u32>) {
        self.ev.push(Op::Dl(count))
    }
    fn delete_characters(&mut self, count: Option<u32>) {
        self.ev.push(Op::Dch(count))
    }
    fn erase_characters(&mut self, count: Option<u32>) {
        self.ev.push(Op::Ech(count))
    }
    fn report_device_attributes(&mut self, mode: Option<u32>, _private: Option<bool>) {
        self.ev.push(Op::Da(mode))
    }
    fn cursor_to_line(&mut self, line: Option<u32>) {
        self.ev.push(Op::Vpa(line))
    }
    fn clear_tab_stop(&mut self, how: Option<u32>) {
        self.ev.push(Op::Tbc(how))
    }
    fn set_mode(&mut self, modes: &[u32], is_private: bool) {
        self.ev.push(Op::Sm(modes.to_vec(), is_private))
    }
    fn reset_mode(&mut self, modes: &[u32], is_private: bool) {
        self.ev.push(Op::Rm(modes.to_vec(), is_private))
    }
    fn select_graphic_rendition(&mut self, modes: &[u32]) {
        self.ev.push(Op::Sgr(modes.to_vec()))
    }
    fn set_title(&mut self, title: &str) {
        self.ev.push(Op::SetTitle(title.into()))
    }
    fn set_icon_name(&mut self, icon_name: &str) {
        self.ev.push(Op::SetIconName(icon_name.into()))
    }
    fn set_margins(&mut self, top: Option<u32>, bottom: Option<u32>) {
        self.ev.push(Op::SetMargins(top, bottom))
    }
    fn display(&mut self) -> Vec<String> {
        vec![]
    }
}

fn guarded<R>(f: impl FnOnce() -> R) -> Result<R, String> {
    take_panic();
    IN_SUBJECT.with(|x| x.set(true));
    let r = catch_unwind(AssertUnwindSafe(f));
    IN_SUBJECT.with(|x| x.set(false));
    match r {
        Ok(v) => Ok(v),
        Err(p) => {
            let hooked = take_panic();
            let msg = if let Some(s) = p.downcast_ref::<&str>() {
                s.to_string()
            } else if let Some(s) = p.downcast_ref::<String>() {
                s.clone()
            } else {
                "<non-string panic>".into()
            };
            Err(if hooked.starts_with(&msg) { hooked } else { msg })
        }
    }
}

/// Events recorded when `chunks` are fed to a fresh char-level Parser.
pub fn record_chars(chunks: &[String], utf8: bool) -> Result<Vec<Op>, String> {
    guarded(|| {
        let rec = Arc::new(Mutex::new(Rec::default()));
        {
            let mut p = Parser::new(rec.clone());
            if !utf8 {
                p.set_use_utf8(false);
            }
            for c in chunks {
                p.feed(c.clone());
            }
        }
        let ev = std::mem::take(&mut rec.lock().unwrap().ev);
        ev
    })
}

/// Events recorded (cumulatively, after each chunk) when byte chunks are fed to a fresh ByteParser.
/// `switches[i]` (if any) is applied before chunk i via select_other_charset.
pub fn record_bytes(chunks: &[Vec<u8>], utf8: bool, switches: &[(usize, &'static str)]) -> Result<Vec<Vec<Op>>, String> {
    guarded(|| {
        let rec = Arc::new(Mutex::new(Rec::default()));
        let mut after = Vec::new();
        {
            let mut p = ByteParser::new(rec.clone());
            if !utf8 {
                p.select_other_charset("@");
            }
            for (i, c) in chunks.iter().enumerate() {
                for (at, code) in switches {
                    if *at == i {
                        p.select_other_charset(code);
                    }
                }
                p.feed(c);
                after.push(rec.lock().unwrap().ev.clone());
            }
        }
        after
    })
}

/// Final screen after feeding char chunks to a fresh Parser attached to `start`.
pub fn screen_after_chars(start: &Screen, chunks: &[String], utf8: bool) -> Result<Screen, String> {
    guarded(|| {
        let arc = Arc::new(Mutex::new(start.clone()));
        {
            let mut p = Parser::new(arc.clone());
            if !utf8 {
                p.set_use_utf8(false);
            }
            for c in chunks {
                p.feed(c.clone());
            }
        }
        let s = arc.lock().unwrap().clone();
        s
    })
}

pub fn screen_after_bytes(start: &Screen, chunks: &[Vec<u8>], utf8: bool) -> Result<Screen, String> {
    guarded(|| {
        let arc = Arc::new(Mutex::new(start.clone()));
        {
            let mut p = ByteParser::new(arc.clone());
            if !utf8 {
                p.select_other_charset("@");
            }
            for c in chunks {
                p.feed(c);
            }
        }
        let s = arc.lock().unwrap().clone();
        s
    })
}

// ---------------------------------------------------------------- alphabets

/// One representative per character class the grammar distinguishes.
pub fn alphabet_a() -> Vec<char> {
    let mut v: Vec<char> = vec![
        '\x00', '\x01', '\x07', '\x08', '\x09', '\x0a', '\x0b', '\x0c', '\x0d', '\x0e', '\x0f', '\x18', '\x1a',
        '\x1b', '\x7f', '\u{9b}', '\u{9c}', '\u{9d}', '\u{85}', '0', '1', '5', '9', ';', '?', '$', ' ', '>', '#',
        '%', '(', ')', '[', ']', '\\', ':', '!', '"',
    ];
    // every supported CSI final and ESC final
    for f in "@ABCDEFGHJKLMPXacdefghlmr".chars() {
        v.push(f);
    }
    for f in "78".chars() {
        v.push(f);
    }
    // charset codes, unknown finals, palette letters
    for f in "UVzq~pRZ".chars() {
        v.push(f);
    }
    // text
    for f in ['x', '\u{e9}', '\u{30a2}', '\u{308}', '\u{1f600}', '\u{feff}'] {
        v.push(f);
    }
    v.sort();
    v.dedup();
    v
}

/// Reduced alphabet used below the full-cube depth inside a sequence.
fn reduced_alphabet() -> Vec<char> {
    vec!['0', '5', '9', ';', '?', ' ', '>', '\x07', '\x0a', '\x0d', '$', '\x18', 'H', 'm', 'z', '\x1b', '\\', '\u{9c}', 'a', ']', '\u{e9}', '\u{30a2}', 'h', 'c']
}

pub const PROBE: &str = "x\x1b[2;3Hy\x1b[B\x1b[4l";

fn word_hash(w: &str, utf8: bool) -> u64 {
    let mut h = std::collections::hash_map::DefaultHasher::new();
    w.hash(&mut h);
    utf8.hash(&mut h);
    h.finish()
}

pub struct E1Local {
    pub words: u64,
    pub d8: u64,
    pub d8_labels: u64,
    pub d15: u64,
    pub nonground: u64,
    pub outcomes: HashSet<u64>,
}

impl E1Local {
    pub fn new() -> E1Local {
        E1Local { words: 0, d8: 0, d8_labels: 0, d15: 0, nonground: 0, outcomes: HashSet::new() }
    }
}

fn ev_hash(ev: &[Op]) -> u64 {
    let mut h = std::collections::hash_map::DefaultHasher::new();
    ev.hash(&mut h);
    h.finish()
}

/// Check one word (with the probe suffix) in one parser mode.
pub fn c03_word(c: &Collector, w: &str, utf8: bool, l: &mut E1Local, engine: &str) {
    let full = format!("{}{}", w, PROBE);
    let rec = crate::recog::recognise_full(&full, utf8);
    let (exp, d8) = (rec.events.clone(), rec.d8);
    let (_, ground_after_word, _) = recognise(w, utf8);
    l.words += 1;
    if !ground_after_word {
        l.nonground += 1;
    }
    let obs = record_chars(&[full.clone()], utf8);
    let mk = |class: String, detail: String, extra: serde_json::Value| Violation {
        property: "C03".into(),
        engine: engine.into(),
        sig: class,
        columns: 0,
        lines: 0,
        script: vec![],
        op: Some(Op::Feed(vec![full.clone()], utf8)),
        detail,
        extra,
    };
    match obs {
        Err(m) => {
            c.violation(mk(
                format!("feed|panic:{}|{}", crate::judge::panic_class(&m), word_class(w)),
                format!("Parser::feed panicked on {}: {}", esc(&full), m),
                json!({}),
            ));
        }
        Ok(ev) => {
            if d8 {
                l.d8 += 1;
                return;
            }
            let (mut e, mut o) = (normalise(&exp), normalise(&ev));
            if rec.d8_labels {
                // an OSC string without `;`: the labels are open, everything else is compared
                l.d8_labels += 1;
                e = crate::recog::without_labels(&e);
                o = crate::recog::without_labels(&o);
            }
            if l.outcomes.len() < 1_000_000 {
                l.outcomes.insert(ev_hash(&o));
            }
            // D15: the other reading of an ESC inside an unfinished sequence
            let alt_ok = match &rec.events_alt {
                Some(a) => {
                    l.d15 += 1;
                    let mut a = normalise(a);
                    if rec.d8_labels {
                        a = crate::recog::without_labels(&a);
                    }
                    a == o
                }
                None => false,
            };
            if e != o && !alt_ok {
                let i = e.iter().zip(o.iter()).position(|(a, b)| a != b).unwrap_or(e.len().min(o.len()));
                c.violation(mk(
                    format!("feed|events-differ|{}", word_class(w)),
                    format!(
                        "input {} (utf8={}): event #{} expected {} observed {}",
                        esc(&full),
                        utf8,
                        i,
                        e.get(i).map(|x| x.short()).unwrap_or_else(|| "<end>".into()),
                        o.get(i).map(|x| x.short()).unwrap_or_else(|| "<end>".into())
                    ),
                    json!({"expected": e.iter().map(|x| x.short()).collect::<Vec<_>>(), "observed": o.iter().map(|x| x.short()).collect::<Vec<_>>()}),
                ));
            }
        }
    }
}

/// Coarse class of a word for the violation signature: its first two symbols.
fn word_class(w: &str) -> String {
    let mut it = w.chars();
    let a = it.next();
    let b = it.next();
    let cl = |c: Option<char>| -> String {
        match c {
            None => "".into(),
            Some(ch) => {
                if ch.is_ascii_digit() {
                    "digit".into()
                } else {
                    esc(&ch.to_string())
                }
            }
        }
    };
    let mut s = format!("{}{}", cl(a), cl(b));
    // the symbol that distinguishes the sequence kind
    if let Some(pos) = w.find(|ch: char| "#%()$".contains(ch)) {
        s.push_str(&format!("..{}", &w[pos..pos + 1]));
    }
    s
}

/// DFS continuation below the cube depth: extend while the reference recogniser is not in ground state.
fn dfs_extend(c: &Collector, prefix: &mut String, depth_left: usize, red: &[char], l: &mut E1Local, modes: &[bool]) {
    for &utf8 in modes {
        let (_, ground, _) = recognise(prefix, utf8);
        if ground {
            continue;
        }
        // emitted by the caller already; extend
        if depth_left == 0 {
            continue;
        }
        for ch in red {
            prefix.push(*ch);
            c03_word(c, prefix, utf8, l, "E1.pruned-dfs");
            let (_, g2, _) = recognise(prefix, utf8);
            if !g2 {
                let mut p2 = prefix.clone();
                dfs_extend(c, &mut p2, depth_left - 1, red, l, &[utf8]);
            }
            prefix.pop();
        }
    }
}

pub fn c03(c: &Collector, g: &mut Guard) {
    let a = alphabet_a();
    let n0 = if c.thorough() { 3 } else { 2 };
    let nmax = 5;
    let red = reduced_alphabet();
    c.bound("alphabet_size", json!(a.len()));
    c.bound("alphabet", json!(a.iter().map(|ch| esc(&ch.to_string())).collect::<Vec<_>>()));
    c.bound("full_cube_length", json!(n0));
    c.bound("pruned_dfs_length", json!(nmax));
    c.bound("probe_suffix", json!(esc(PROBE)));
    let na = a.len();
    // partitions: first symbol (x second symbol for the thorough cube)
    let parts = na;
    let crashes = fork_map(c, parts, Duration::from_secs(crate::explore::sweep_timeout_s()), |part, cc| {
        let mut l = E1Local { words: 0, d8: 0, d8_labels: 0, d15: 0, nonground: 0, outcomes: HashSet::new() };
        let first = a[part];
        // (a) full cube
        let mut stack: Vec<String> = vec![first.to_string()];
        while let Some(w) = stack.pop() {
            for utf8 in [true, false] {
                c03_word(cc, &w, utf8, &mut l, "E1.cube");
            }
            let len = w.chars().count();
            if len < n0 {
                for ch in &a {
                    let mut w2 = w.clone();
                    w2.push(*ch);
                    stack.push(w2);
                }
            } else {
                // (b) ground-pruned continuation with the reduced alphabet
                let mut p = w.clone();
                dfs_extend(cc, &mut p, nmax - len, &red, &mut l, &[true, false]);
            }
        }
        if part == 0 {
            // empty word
            for utf8 in [true, false] {
                c03_word(cc, "", utf8, &mut l, "E1.cube");
            }
        }
        cc.add_transitions(l.words);
        cc.count("oracle_checks", l.words);
        cc.count("words", l.words);
        cc.count("words_d8_skipped", l.d8);
        cc.count("words_d8_labels_only", l.d8_labels);
        cc.count("words_d15_two_readings", l.d15);
        cc.count("words_ending_inside_a_sequence", l.nonground);
        cc.outcomes(&l.outcomes);
    });
    for cr in crashes {
        c.crash(format!("E1 worker {} ended abnormally ({}), partition {:?}", cr.child, cr.how, cr.last_part));
    }
    // (c) unbounded-looking families enumerated completely within a bound
    let finals: Vec<char> = "@ABCDEFGHJKLMPXacdefghlmrz".chars().collect();
    let crashes = fork_map(c, finals.len(), Duration::from_secs(crate::explore::sweep_timeout_s()), |part, cc| {
        let mut l = E1Local { words: 0, d8: 0, d8_labels: 0, d15: 0, nonground: 0, outcomes: HashSet::new() };
        let f = finals[part];
        // digit runs of every length 1..=40 x 3 digit patterns
        for len in 1..=40usize {
            for pat in 0..3 {
                let digits: String = (0..len)
                    .map(|i| match pat {
                        0 => '9',
                        1 => {
                            if i == 0 {
                                '1'
                            } else {
                                '0'
                            }
                        }
                        _ => char::from(b'0' + ((i * 7 + 3) % 10) as u8),
                    })
                    .collect();
                for intro in ["\x1b[", "\u{9b}"] {
                    for w in [format!("{}{}{}", intro, digits, f), format!("{}{};{}{}", intro, digits, digits, f), format!("{}?{}{}", intro, digits, f), format!("{}0000{}{}", intro, digits, f)] {
                        for utf8 in [true, false] {
                            c03_word(cc, &w, utf8, &mut l, "E1.digit-runs");
                        }
                    }
                }
            }
        }
        // spellings around 2^8 .. 2^64 (wrapping accumulators)
        for h in crate::props::big_numbers() {
            for w in [format!("\x1b[{}{}", h, f), format!("\x1b[?{};{}{}", h, h, f)] {
                for utf8 in [true, false] {
                    c03_word(cc, &w, utf8, &mut l, "E1.digit-runs");
                }
            }
        }
        // parameter lists of every length 0..=32
        for n in 0..=32usize {
            for style in 0..3 {
                let params: Vec<String> = (0..n)
                    .map(|i| match style {
                        0 => format!("{}", i + 1),
                        1 => String::new(),
                        _ => {
                            if i % 2 == 0 {
                                "7".into()
                            } else {
                                String::new()
                            }
                        }
                    })
                    .collect();
                let w = format!("\x1b[{}{}", params.join(";"), f);
                for utf8 in [true, false] {
                    c03_word(cc, &w, utf8, &mut l, "E1.param-lists");
                }
            }
        }
        cc.add_transitions(l.words);
        cc.count("oracle_checks", l.words);
        cc.count("words", l.words);
        cc.count("family_words", l.words);
        cc.outcomes(&l.outcomes);
    });
    for cr in crashes {
        c.crash(format!("E1 family worker {} ended abnormally ({}), partition {:?}", cr.child, cr.how, cr.last_part));
    }
    // (d) macro-words: sequences of complete control functions (incl. the ones that end
    // without a dispatch), so that state leaking from one sequence into the next is seen
    let mx = macro_alphabet_ext();
    let mlen = if c.thorough() { 3 } else { 2 };
    c.bound("macro_alphabet_size", json!(mx.len()));
    c.bound("macro_word_length", json!(mlen));
    let crashes = fork_map(c, mx.len(), Duration::from_secs(crate::explore::sweep_timeout_s()), |part, cc| {
        let mut l = E1Local::new();
        let mut stack: Vec<Vec<usize>> = vec![vec![part]];
        while let Some(w) = stack.pop() {
            let text: String = w.iter().map(|i| mx[*i]).collect::<Vec<_>>().join("");
            for utf8 in [true, false] {
                c03_word(cc, &text, utf8, &mut l, "E1.macro");
            }
            if w.len() < mlen {
                for i in 0..mx.len() {
                    let mut w2 = w.clone();
                    w2.push(i);
                    stack.push(w2);
                }
            }
        }
        cc.add_transitions(l.words);
        cc.count("oracle_checks", l.words);
        cc.count("words", l.words);
        cc.count("macro_words", l.words);
        cc.count("words_d8_skipped", l.d8);
        cc.count("words_d8_labels_only", l.d8_labels);
        cc.count("words_d15_two_readings", l.d15);
        cc.outcomes(&l.outcomes);
    });
    for cr in crashes {
        c.crash(format!("E1 macro worker {} ended abnormally ({}), partition {:?}", cr.child, cr.how, cr.last_part));
    }
    // (d1) two parsers on one listener, interleaved: parser state is per parser (a scratch buffer
    // hoisted to module scope, a static, a thread-local would leak from one into the other)
    let mx2 = macro_alphabet_ext();
    let crashes = fork_map(c, mx2.len(), Duration::from_secs(crate::explore::sweep_timeout_s()), |part, cc| {
        let w1: Vec<char> = mx2[part].chars().collect();
        let mut n = 0u64;
        for w2 in &mx2 {
            for cut in 1..w1.len() {
                let (a, b): (String, String) = (w1[..cut].iter().collect(), w1[cut..].iter().collect());
                let b = format!("{}{}", b, PROBE);
                for utf8 in [true, false] {
                    n += 1;
                    // expectation: per-feed slices of two independent recognisers
                    let mut r1 = crate::recog::Recog::new(utf8);
                    let mut r2 = crate::recog::Recog::new(utf8);
                    r1.feed(&a);
                    let e1a = r1.out.clone();
                    r2.feed(w2);
                    let e2 = r2.out.clone();
                    r1.out.clear();
                    r1.feed(&b);
                    let e1b = r1.out.clone();
                    if r1.d8 || r2.d8 || r1.d8_labels || r2.d8_labels || r1.restart_seen || r2.restart_seen {
                        continue;
                    }
                    let mut exp = e1a;
                    exp.extend(e2);
                    exp.extend(e1b);
                    let obs = guarded(|| {
                        let rec = Arc::new(Mutex::new(Rec::default()));
                        {
                            let mut p1 = Parser::new(rec.clone());
                            let mut p2 = Parser::new(rec.clone());
                            if !utf8 {
                                p1.set_use_utf8(false);
                                p2.set_use_utf8(false);
                            }
                            p1.feed(a.clone());
                            p2.feed(w2.to_string());
                            p1.feed(b.clone());
                        }
                        let ev = std::mem::take(&mut rec.lock().unwrap().ev);
                        ev
                    });
                    let op = Op::Feed(vec![a.clone(), format!("<second parser> {}", w2), b.clone()], utf8);
                    match obs {
                        Err(m) => cc.violation(Violation {
                            property: "C03".into(),
                            engine: "E1.two-parsers".into(),
                            sig: format!("two-parsers|panic:{}", crate::judge::panic_class(&m)),
                            columns: 0,
                            lines: 0,
                            script: vec![],
                            op: Some(op),
                            detail: m,
                            extra: json!({}),
                        }),
                        Ok(ev) => {
                            let (e, o) = (normalise(&exp), normalise(&ev));
                            if e != o {
                                let i = e.iter().zip(o.iter()).position(|(x, y)| x != y).unwrap_or(e.len().min(o.len()));
                                cc.violation(Violation {
                                    property: "C03".into(),
                                    engine: "E1.two-parsers".into(),
                                    sig: "two-parsers|events-differ".into(),
                                    columns: 0,
                                    lines: 0,
                                    script: vec![],
                                    op: Some(op),
                                    detail: format!(
                                        "parser 1 fed {}, then a second parser on the same listener fed {}, then parser 1 fed {}: event #{} expected {} observed {}",
                                        esc(&a),
                                        esc(w2),
                                        esc(&b),
                                        i,
                                        e.get(i).map(|x| x.short()).unwrap_or_else(|| "<end>".into()),
                                        o.get(i).map(|x| x.short()).unwrap_or_else(|| "<end>".into())
                                    ),
                                    extra: json!({"not_replayable_by_generic_replay": true}),
                                });
                            }
                        }
                    }
                }
            }
        }
        cc.add_transitions(n);
        cc.count("oracle_checks", n);
        cc.count("two_parser_cases", n);
    });
    for cr in crashes {
        c.crash(format!("E1 two-parsers worker {} ended abnormally ({}), partition {:?}", cr.child, cr.how, cr.last_part));
    }
    // (d2) non-ASCII characters where a final is expected (dispatch on a truncated code point)
    // (and every ASCII character from SP to DEL there and inside the parameters: `<`, `=`, `&`, `'`,
    // `*`, `+`, `,`, `-`, `.`, `/` are in no other alphabet)
    let mut odd: Vec<char> = (0x20u32..0x300).filter_map(char::from_u32).collect();
    for hi in [0x2000u32, 0x3000, 0xff00, 0x1f600, 0x10ff00] {
        for lo in [0x37u32, 0x38, 0x63, 0x44, 0x45, 0x4d, 0x48, 0x5b, 0x5d, 0x23, 0x28, 0x07, 0x1b, 0x6d, 0x72] {
            if let Some(ch) = char::from_u32(hi + lo) {
                odd.push(ch);
            }
        }
    }
    let crashes = fork_map(c, 16, Duration::from_secs(crate::explore::sweep_timeout_s()), |part, cc| {
        let mut l = E1Local::new();
        for (i, ch) in odd.iter().enumerate() {
            if i % 16 != part {
                continue;
            }
            for w in [
                format!("\x1b7\x1b[3;3H\x1b{}", ch),
                format!("\x1b[5{}", ch),
                format!("\x1b[{}5Ax", ch),
                format!("\x1b[2;{}3Hx", ch),
                format!("{}{}1mx", 0x9b as char, ch),
                format!("\x1b[?25{}", ch),
                format!("\x1b#{}", ch),
                format!("\x1b({}", ch),
                format!("\x1b]{};a\x07", ch),
                format!("\x1b]0;a{}", ch),
                format!("{}", ch),
            ] {
                for utf8 in [true, false] {
                    c03_word(cc, &w, utf8, &mut l, "E1.odd-finals");
                }
            }
        }
        cc.add_transitions(l.words);
        cc.count("oracle_checks", l.words);
        cc.count("words", l.words);
        cc.count("odd_final_words", l.words);
        cc.count("words_d8_skipped", l.d8);
        cc.count("words_d8_labels_only", l.d8_labels);
        cc.count("words_d15_two_readings", l.d15);
        cc.outcomes(&l.outcomes);
    });
    for cr in crashes {
        c.crash(format!("E1 odd-finals worker {} ended abnormally ({}), partition {:?}", cr.child, cr.how, cr.last_part));
    }
    // (e) long inputs
    let longs = long_streams();
    let crashes = fork_map(c, 16, Duration::from_secs(crate::explore::sweep_timeout_s()), |part, cc| {
        let mut l = E1Local::new();
        for (i, (_, text)) in longs.iter().enumerate() {
            if i % 16 != part {
                continue;
            }
            for utf8 in [true, false] {
                c03_word(cc, text, utf8, &mut l, "E1.long");
            }
        }
        cc.add_transitions(l.words);
        cc.count("oracle_checks", l.words);
        cc.count("words", l.words);
        cc.count("long_words", l.words);
        cc.outcomes(&l.outcomes);
    });
    for cr in crashes {
        c.crash(format!("E1 long worker {} ended abnormally ({}), partition {:?}", cr.child, cr.how, cr.last_part));
    }
    // OSC payload family (events only; the Screen-level effect is C19)
    let payload_syms: Vec<&str> = vec!["a", ";", "\\", "]", " ", "\u{e9}", "\x01", "\n", "\x1ba", "\x1b["];
    let plen = if c.thorough() { 5 } else { 3 };
    let codes = ["0", "1", "2", "3", "9", "a", "l", "10", "133", ""];
    let crashes = fork_map(c, codes.len() * 2, Duration::from_secs(crate::explore::sweep_timeout_s()), |part, cc| {
        let mut l = E1Local { words: 0, d8: 0, d8_labels: 0, d15: 0, nonground: 0, outcomes: HashSet::new() };
        let code = codes[part / 2];
        let intro = if part % 2 == 0 { "\x1b]" } else { "\u{9d}" };
        let mut payloads: Vec<String> = vec![String::new()];
        let mut frontier: Vec<String> = vec![String::new()];
        for _ in 0..plen {
            let mut next = Vec::new();
            for p in &frontier {
                for s in &payload_syms {
                    next.push(format!("{}{}", p, s));
                }
            }
            payloads.extend(next.iter().cloned());
            frontier = next;
        }
        for p in &payloads {
            for term in ["\x07", "\u{9c}", "\x1b\\"] {
                let w = format!("{}{};{}{}", intro, code, p, term);
                c03_word(cc, &w, true, &mut l, "E1.osc");
                if w.chars().all(|ch| (ch as u32) < 0x100) && p.chars().count() <= 2 {
                    c03_word(cc, &w, false, &mut l, "E1.osc");
                }
                // the same string without its `;` (D8, labels only: where it ends is still defined),
                // and cut short right after the introducer / the command number
                if p.chars().count() <= 2 && !p.contains(';') {
                    for utf8 in [true, false] {
                        c03_word(cc, &format!("{}{}{}{}", intro, code, p, term), utf8, &mut l, "E1.osc.no-separator");
                    }
                }
            }
        }
        cc.add_transitions(l.words);
        cc.count("oracle_checks", l.words);
        cc.count("words", l.words);
        cc.count("osc_words", l.words);
        cc.count("words_d8_skipped", l.d8);
        cc.count("words_d8_labels_only", l.d8_labels);
        cc.count("words_d15_two_readings", l.d15);
        cc.outcomes(&l.outcomes);
    });
    for cr in crashes {
        c.crash(format!("E1 osc worker {} ended abnormally ({}), partition {:?}", cr.child, cr.how, cr.last_part));
    }
    c.add_states(c.counter("words"));
    c.sample(json!({"word": esc("\x1b[5;12H"), "probe": esc(PROBE), "modes": ["utf8", "8bit"]}));
    c.sample(json!({"word": esc("\u{9b}?25l"), "events": ["reset_mode([25],?)", "draw(x)", "cursor_position(2,3)", "draw(y)"]}));
    c.sample(json!({"word": esc("\x1b]0;a;b\x1b\\"), "events": ["set_icon_name(a;b)", "set_title(a;b)", "draw(x)", "cursor_position(2,3)", "draw(y)"]}));
    g.need(c, "words");
    g.need(c, "words_ending_inside_a_sequence");
    g.need(c, "family_words");
    g.need(c, "osc_words");
    g.need(c, "macro_words");
    g.need(c, "long_words");
    g.need(c, "odd_final_words");
    g.need(c, "two_parser_cases");
    let _ = word_hash;
}

// =====================================================================  C19
pub fn c19(c: &Collector, g: &mut Guard) {
    let payload_syms: Vec<&str> = vec!["a", ";", "\\", "]", " ", "\u{e9}", "\u{30a2}", "\x01", "\n", "\x1ba", "\x1b["];
    let plen = if c.thorough() { 5 } else { 3 };
    // the command number is everything before the first `;`: "10", "133", "22", "" are other codes
    let codes = ["0", "1", "2", "3", "9", "a", "l", "10", "133", "22", "12", ""];
    let start = {
        let mut s = Screen::new(20, 2);
        s.set_title("T0");
        s.set_icon_name("I0");
        s.cursor_position(Some(2), Some(4));
        s
    };
    let base_script = vec![Op::SetTitle("T0".into()), Op::SetIconName("I0".into()), Op::Cup(Some(2), Some(4))];
    c.bound("payload_symbols", json!(payload_syms.iter().map(|s| esc(s)).collect::<Vec<_>>()));
    c.bound("payload_max_length", json!(plen));
    c.bound("codes", json!(codes));
    c.bound("introducers", json!(["ESC ]", "U+009D"]));
    c.bound("terminators", json!(["BEL", "U+009C", "ESC \\"]));
    c.bound("chunkings", json!("single feed + every 2-way cut (chars); UTF-8 bytes through ByteParser: single feed + every 2-way byte cut"));
    let start_snap = snap(&start);
    let crashes = fork_map(c, codes.len() * 2, Duration::from_secs(crate::explore::sweep_timeout_s()), |part, cc| {
        let code = codes[part / 2];
        let intro = if part % 2 == 0 { "\x1b]" } else { "\u{9d}" };
        let mut payloads: Vec<String> = vec![String::new()];
        let mut frontier: Vec<String> = vec![String::new()];
        for _ in 0..plen {
            let mut next = Vec::new();
            for p in &frontier {
                for s in &payload_syms {
                    next.push(format!("{}{}", p, s));
                }
            }
            payloads.extend(next.iter().cloned());
            frontier = next;
        }
        let mut n = 0u64;
        let mut outcomes = HashSet::new();
        for p in &payloads {
            for term in ["\x07", "\u{9c}", "\x1b\\"] {
                let w = format!("{}{};{}{}x", intro, code, p, term);
                // expected, in closed form
                let mut exp = start_snap.clone();
                match code {
                    "0" => {
                        exp.title = p.clone();
                        exp.icon = p.clone();
                    }
                    "1" => exp.icon = p.clone(),
                    "2" => exp.title = p.clone(),
                    _ => {}
                }
                exp.grid[1][3] = exp.cursor.attr.with_data("x");
                exp.cursor.x = 4;
                // D8: an ESC inside the payload followed by ESC/BEL/ST cannot be generated by this alphabet
                let chars: Vec<char> = w.chars().collect();
                let mut chunkings: Vec<Vec<String>> = vec![vec![w.clone()]];
                for cut in 1..chars.len() {
                    chunkings.push(vec![chars[..cut].iter().collect(), chars[cut..].iter().collect()]);
                }
                for (ci, chunks) in chunkings.iter().enumerate() {
                    n += 1;
                    let r = screen_after_chars(&start, chunks, true);
                    c19_verdict(cc, &base_script, Op::Feed(chunks.clone(), true), r, &exp, &start_snap, code, ci > 0, &mut outcomes);
                }
                // bytes
                let bytes = w.as_bytes().to_vec();
                let mut bch: Vec<Vec<Vec<u8>>> = vec![vec![bytes.clone()]];
                if p.chars().count() <= 2 || !p.is_ascii() {
                    for cut in 1..bytes.len() {
                        bch.push(vec![bytes[..cut].to_vec(), bytes[cut..].to_vec()]);
                    }
                }
                // fixed-size k-byte chunkings (a chunk may both start and end inside a multi-byte character)
                if !p.is_ascii() {
                    for k in 1..=6usize {
                        bch.push(bytes.chunks(k).map(|x| x.to_vec()).collect());
                    }
                }
                for (ci, chunks) in bch.iter().enumerate() {
                    n += 1;
                    let r = screen_after_bytes(&start, chunks, true);
                    c19_verdict(cc, &base_script, Op::FeedBytes(chunks.clone(), true), r, &exp, &start_snap, code, ci > 0, &mut outcomes);
                }
                // 8-bit mode: the same string as Latin-1 characters / bytes (U+009D and U+009C are
                // the single bytes 9D and 9C there)
                if w.chars().all(|ch| (ch as u32) < 0x100) {
                    n += 2;
                    let r = screen_after_chars(&start, &[w.clone()], false);
                    c19_verdict(cc, &base_script, Op::Feed(vec![w.clone()], false), r, &exp, &start_snap, code, false, &mut outcomes);
                    let lat: Vec<u8> = w.chars().map(|ch| ch as u32 as u8).collect();
                    let r = screen_after_bytes(&start, &[lat.clone()], false);
                    c19_verdict(cc, &base_script, Op::FeedBytes(vec![lat.clone()], false), r, &exp, &start_snap, code, false, &mut outcomes);
                    if p.chars().count() <= 1 {
                        for cut in 1..lat.len() {
                            n += 1;
                            let chunks = vec![lat[..cut].to_vec(), lat[cut..].to_vec()];
                            let r = screen_after_bytes(&start, &chunks, false);
                            c19_verdict(cc, &base_script, Op::FeedBytes(chunks.clone(), false), r, &exp, &start_snap, code, true, &mut outcomes);
                        }
                    }
                }
            }
        }
        cc.add_transitions(n);
        cc.count("oracle_checks", n);
        cc.count("osc_feeds", n);
        cc.count("payloads", payloads.len() as u64);
        cc.outcomes(&outcomes);
    });
    for cr in crashes {
        c.crash(format!("C19 worker {} ended abnormally ({}), partition {:?}", cr.child, cr.how, cr.last_part));
    }
    // histories: several OSC strings, resets and direct title changes through ONE parser
    // (a parser that remembers what it sent last must not suppress a later, identical string)
    let items: Vec<&str> = vec![
        "\x1b]0;a\x07", "\x1b]1;a\x07", "\x1b]2;a\x1b\\", "\x1b]2;b\u{9c}", "\x1b]0;\x07", "\x1bc", "\x1b]1;\u{65e5}\u{672c}\x07",
        "\x1b]9;a\x07", "q",
    ];
    let hlen = if c.thorough() { 4 } else { 3 };
    let hbase = vec![crate::explore::Base { columns: 20, lines: 2, script: base_script.clone(), screen: start.clone() }];
    crate::explore::sweep(
        c,
        &hbase,
        |_| {
            let mut words: Vec<Vec<usize>> = vec![vec![]];
            let mut all: Vec<Vec<usize>> = Vec::new();
            for _ in 0..hlen {
                let mut next = Vec::new();
                for w in &words {
                    for i in 0..items.len() {
                        let mut w2 = w.clone();
                        w2.push(i);
                        next.push(w2);
                    }
                }
                all.extend(next.iter().cloned());
                words = next;
            }
            let mut v = Vec::new();
            for w in all {
                let text: String = w.iter().map(|i| items[*i]).collect();
                v.push(Op::Feed(vec![text.clone()], true));
                if w.len() == hlen {
                    // one feed() per item, and the byte parser
                    v.push(Op::Feed(w.iter().map(|i| items[*i].to_string()).collect(), true));
                    v.push(Op::FeedBytes(vec![text.as_bytes().to_vec()], true));
                }
            }
            v
        },
        |c, t, local| {
            local.count("osc_histories");
            crate::judge::refine_all(c, "C19", "E1.osc-histories", t, local);
        },
    );
    // characters whose code point merely ends in the byte of a terminator / separator / ESC
    crate::explore::sweep(
        c,
        &hbase,
        |_| {
            // every character below U+0300 other than the two that end / escape the string: the C0
            // controls (CAN, SUB, BS, CR, SO ... are payload inside an OSC string), DEL, the C1 range
            let mut odd: Vec<char> = (0x0u32..0x300).filter(|u| *u != 0x07 && *u != 0x1b).filter_map(char::from_u32).collect();
            for hi in [0x300u32, 0x2200, 0x3000, 0x4e00, 0xff00, 0x1f400, 0x10ff00] {
                for lo in [0x07u32, 0x9c, 0x1b, 0x5c, 0x3b, 0x30, 0x32, 0x18, 0x1a, 0x9d, 0x0a] {
                    if let Some(ch) = char::from_u32(hi + lo) {
                        odd.push(ch);
                    }
                }
            }
            let mut v = Vec::new();
            for ch in odd {
                v.push(Op::Feed(vec![format!("\x1b]0;a{}b\x07x", ch)], true));
                v.push(Op::FeedBytes(vec![format!("\x1b]2;{}\x1b\\x", ch).into_bytes()], true));
            }
            v
        },
        |c, t, local| {
            local.count("odd_payload_chars");
            crate::judge::refine_all(c, "C19", "E1.osc-odd-chars", t, local);
        },
    );
    // a feed() boundary right before (and right after) an unusual payload character
    crate::explore::sweep(
        c,
        &hbase,
        |_| {
            let mut v = Vec::new();
            for ch in ['\u{feff}', '\u{fffe}', '\u{fffd}', '\u{200b}', '\u{301}', '\u{e9}', '\u{30a2}', '\u{1f600}', '\u{2028}', '\u{85}', ' ', ';', '\\'] {
                for code in ["0", "2"] {
                    v.push(Op::Feed(vec![format!("\x1b]{};a", code), format!("{}b\x07x", ch)], true));
                    v.push(Op::Feed(vec![format!("\x1b]{};a{}", code, ch), "b\x07x".to_string()], true));
                    v.push(Op::Feed(vec![format!("\x1b]{};", code), format!("{}\x07x", ch)], true));
                    let b1 = format!("\x1b]{};a", code).into_bytes();
                    let b2 = format!("{}b\x1b\\x", ch).into_bytes();
                    v.push(Op::FeedBytes(vec![b1, b2], true));
                }
            }
            v
        },
        |c, t, local| {
            local.count("cut_before_odd_char");
            crate::judge::refine_all(c, "C19", "E1.osc-cut-before-char", t, local);
        },
    );
    // long titles (and long everything else around them)
    crate::explore::sweep(
        c,
        &hbase,
        |_| {
            let mut v = Vec::new();
            for (name, text) in long_streams() {
                if name.starts_with("osc") {
                    v.push(Op::Feed(vec![text.clone()], true));
                    v.push(Op::FeedBytes(vec![text.as_bytes().to_vec()], true));
                    let b = text.as_bytes();
                    v.push(Op::FeedBytes(b.chunks(7).map(|x| x.to_vec()).collect(), true));
                }
            }
            v
        },
        |c, t, local| {
            local.count("long_titles");
            crate::judge::refine_all(c, "C19", "E1.osc-long", t, local);
        },
    );
    c.add_states(c.counter("payloads"));
    c.sample(json!({"input": esc("\x1b]0;a;\\]\x1b\\x"), "expected_title": "a;\\]", "expected_icon": "a;\\]", "grid": "only 'x' at (3,1)", "cursor": "(4,1)"}));
    c.sample(json!({"input": esc("\u{9d}2;\u{e9} \x1ba\u{9c}x"), "expected_title": esc("\u{e9} \x1ba"), "expected_icon": "I0 (unchanged)"}));
    g.need(c, "osc_feeds");
    g.need(c, "osc_histories");
    g.need(c, "long_titles");
    g.need(c, "odd_payload_chars");
}

#[allow(clippy::too_many_arguments)]
pub fn c19_verdict(
    c: &Collector,
    base_script: &[Op],
    op: Op,
    r: Result<Screen, String>,
    exp: &Snap,
    start: &Snap,
    code: &str,
    chunked: bool,
    outcomes: &mut HashSet<u64>,
) {
    let mk = |class: String, detail: String| Violation {
        property: "C19".into(),
        engine: "E1.osc-screen".into(),
        sig: class,
        columns: 20,
        lines: 2,
        script: base_script.to_vec(),
        op: Some(op.clone()),
        detail,
        extra: json!({}),
    };
    let kind = format!("code{}{}{}", code, if chunked { "|chunked" } else { "" }, if matches!(op, Op::FeedBytes(..)) { "|bytes" } else { "" });
    match r {
        Err(m) => c.violation(mk(format!("osc|panic:{}|{}", crate::judge::panic_class(&m), kind), format!("{} panicked: {}", op.short(), m))),
        Ok(s) => {
            let mut obs = snap(&s);
            outcomes.insert(crate::snapshot::snap_key(&obs));
            obs.dirty = exp.dirty.clone();
            if obs != *exp {
                let what = if obs.title != exp.title {
                    format!("title expected {:?} observed {:?}", exp.title, obs.title)
                } else if obs.icon != exp.icon {
                    format!("icon name expected {:?} observed {:?}", exp.icon, obs.icon)
                } else if obs.grid != exp.grid {
                    format!("grid expected {:?} observed {:?}", exp.grid_text(), obs.grid_text())
                } else if obs.cursor != exp.cursor {
                    format!("cursor expected ({},{}) observed ({},{})", exp.cursor.x, exp.cursor.y, obs.cursor.x, obs.cursor.y)
                } else {
                    "another component changed".to_string()
                };
                let comp = if obs.title != exp.title {
                    "title"
                } else if obs.icon != exp.icon {
                    "icon"
                } else if obs.grid != exp.grid {
                    "grid"
                } else if obs.cursor != exp.cursor {
                    "cursor"
                } else {
                    "other"
                };
                let _ = start;
                c.violation(mk(format!("osc|mismatch:{}|{}", comp, kind), format!("{}: {}", op.short(), what)));
            }
        }
    }
}

// =====================================================================  C11
pub fn byte_alphabet() -> Vec<u8> {
    vec![
        0x41, 0x7f, 0x80, 0x8f, 0x90, 0x9f, 0xa0, 0xbf, 0xc0, 0xc1, 0xc2, 0xdf, 0xe0, 0xe1, 0xec, 0xed, 0xee, 0xef,
        0xf0, 0xf1, 0xf3, 0xf4, 0xf5, 0xff, 0xbb, 0x1b,
        // FE and FF are one class for a UTF-8 decoder but not for a byte-order-mark sniffer
        0xfe,
    ]
}

/// all ordered partitions of 0..n into consecutive non-empty chunks, as cut masks
fn all_chunkings(bytes: &[u8]) -> Vec<Vec<Vec<u8>>> {
    let n = bytes.len();
    if n == 0 {
        return vec![vec![]];
    }
    let mut out = Vec::new();
    for mask in 0u32..(1 << (n - 1)) {
        let mut chunks = Vec::new();
        let mut cur = vec![bytes[0]];
        for i in 1..n {
            if mask & (1 << (i - 1)) != 0 {
                chunks.push(std::mem::take(&mut cur));
            }
            cur.push(bytes[i]);
        }
        chunks.push(cur);
        out.push(chunks);
    }
    out
}

fn strip_bom(ev: Vec<Op>) -> Vec<Op> {
    // D9: a U+FEFF at the very start of the stream may be ignored
    let mut ev = ev;
    if let Some(Op::Draw(t)) = ev.first_mut() {
        if t.starts_with('\u{feff}') {
            *t = t['\u{feff}'.len_utf8()..].to_string();
            if t.is_empty() {
                ev.remove(0);
            }
        }
    }
    ev
}

fn expected_events(bytes: &[u8], utf8: bool) -> Vec<Op> {
    let s = utf8ref::decode(bytes, utf8);
    let (ev, _, _) = recognise(&s, utf8);
    normalise(&ev)
}

/// D9: a U+FEFF at the very start of the stream may be delivered or ignored.
fn events_match(exp: &[Op], obs: &[Op]) -> bool {
    exp == obs || strip_bom(exp.to_vec()) == obs
}

pub struct E3Local {
    pub n: u64,
    pub split_multibyte: u64,
    pub invalid: u64,
    pub outcomes: HashSet<u64>,
}

impl E3Local {
    pub fn new() -> E3Local {
        E3Local { n: 0, split_multibyte: 0, invalid: 0, outcomes: HashSet::new() }
    }
}

/// One byte string under one chunking: after EVERY chunk the events so far must equal the
/// reference decoding of the prefix minus its incomplete tail.
pub fn c11_case(c: &Collector, chunks: &[Vec<u8>], utf8: bool, l: &mut E3Local, engine: &str, prop: &str) {
    l.n += 1;
    let all: Vec<u8> = chunks.concat();
    if utf8 && std::str::from_utf8(&all).is_err() {
        l.invalid += 1;
    }
    let mk = |class: String, detail: String, extra: serde_json::Value| Violation {
        property: prop.into(),
        engine: engine.into(),
        sig: class,
        columns: 0,
        lines: 0,
        script: vec![],
        op: Some(Op::FeedBytes(chunks.to_vec(), utf8)),
        detail,
        extra,
    };
    let kind = byte_class(&all, chunks.len());
    match record_bytes(chunks, utf8, &[]) {
        Err(m) => c.violation(mk(
            format!("feed_bytes|panic:{}|{}", crate::judge::panic_class(&m), kind),
            format!("ByteParser::feed panicked on {} : {}", chunks.iter().map(|x| hex(x)).collect::<Vec<_>>().join(" | "), m),
            json!({}),
        )),
        Ok(after) => {
            let mut end = 0;
            for (i, ch) in chunks.iter().enumerate() {
                end += ch.len();
                let prefix = &all[..end];
                let tail = if utf8 { utf8ref::incomplete_tail(prefix) } else { 0 };
                if tail > 0 {
                    l.split_multibyte += 1;
                }
                let exp = expected_events(&prefix[..prefix.len() - tail], utf8);
                let obs = normalise(&after[i]);
                if i + 1 == chunks.len() {
                    l.outcomes.insert(ev_hash(&obs));
                }
                if !events_match(&exp, &obs) {
                    c.violation(mk(
                        format!("feed_bytes|decoding-differs|{}", kind),
                        format!(
                            "bytes {} (utf8={}), after chunk {}: expected {:?} observed {:?}",
                            chunks.iter().map(|x| hex(x)).collect::<Vec<_>>().join(" | "),
                            utf8,
                            i,
                            exp.iter().map(|x| x.short()).collect::<Vec<_>>(),
                            obs.iter().map(|x| x.short()).collect::<Vec<_>>()
                        ),
                        json!({}),
                    ));
                    return;
                }
            }
        }
    }
}

fn byte_class(all: &[u8], nchunks: usize) -> String {
    let valid = std::str::from_utf8(all).is_ok();
    format!("{}|{}", if valid { "valid" } else { "invalid" }, if nchunks > 1 { "chunked" } else { "single" })
}

fn with_empty_chunks(chunks: &[Vec<u8>]) -> Vec<Vec<Vec<u8>>> {
    let mut out = Vec::new();
    for pos in 0..=chunks.len() {
        let mut v = chunks.to_vec();
        v.insert(pos, vec![]);
        out.push(v);
    }
    out
}

pub fn c11(c: &Collector, g: &mut Guard) {
    let b = byte_alphabet();
    let n = if c.thorough() { 4 } else { 3 };
    c.bound("byte_alphabet", json!(hex(&b)));
    c.bound("max_length", json!(n));
    c.bound("chunkings", json!("all 2^(n-1) partitions; empty chunks inserted at every position of the single-chunk and of each 2-chunk partition"));
    let nb = b.len();
    let crashes = fork_map(c, nb, Duration::from_secs(crate::explore::sweep_timeout_s()), |part, cc| {
        let mut l = E3Local { n: 0, split_multibyte: 0, invalid: 0, outcomes: HashSet::new() };
        let mut stack: Vec<Vec<u8>> = vec![vec![b[part]]];
        let mut strings = 0u64;
        while let Some(w) = stack.pop() {
            strings += 1;
            for chunks in all_chunkings(&w) {
                c11_case(cc, &chunks, true, &mut l, "E3.cube", "C11");
                if chunks.len() <= 2 {
                    for ce in with_empty_chunks(&chunks) {
                        c11_case(cc, &ce, true, &mut l, "E3.cube.empty-chunks", "C11");
                    }
                }
            }
            if w.len() < n {
                for x in &b {
                    let mut w2 = w.clone();
                    w2.push(*x);
                    stack.push(w2);
                }
            }
        }
        cc.add_transitions(l.n);
        cc.count("oracle_checks", l.n);
        cc.add_states(strings);
        cc.count("byte_strings", strings);
        cc.count("cases", l.n);
        cc.count("chunk_ends_inside_multibyte", l.split_multibyte);
        cc.count("invalid_streams", l.invalid);
        cc.outcomes(&l.outcomes);
    });
    for cr in crashes {
        c.crash(format!("E3 worker {} ended abnormally ({}), partition {:?}", cr.child, cr.how, cr.last_part));
    }
    // well-formed scalars at the class boundaries, cut at every byte offset, in context
    let scalars: Vec<u32> = vec![
        0x0, 0x1, 0x41, 0x7e, 0x7f, 0x80, 0x81, 0xa0, 0xff, 0x100, 0x7ff, 0x800, 0x801, 0xfff, 0x1000, 0xcfff, 0xd000,
        0xd7ff, 0xe000, 0xfeff, 0xfffd, 0xfffe, 0xffff, 0x10000, 0x10001, 0x1f600, 0x3ffff, 0x40000, 0xfffff,
        0x100000, 0x10ffff, 0x9b, 0x9c, 0x9d, 0x85, 0x308, 0x30a2,
    ];
    let crashes = fork_map(c, 4, Duration::from_secs(crate::explore::sweep_timeout_s()), |part, cc| {
        let mut l = E3Local { n: 0, split_multibyte: 0, invalid: 0, outcomes: HashSet::new() };
        if part == 0 {
            for s in &scalars {
                let ch = char::from_u32(*s).unwrap();
                for ctx in 0..3 {
                    let text = match ctx {
                        0 => ch.to_string(),
                        1 => format!("a{}b", ch),
                        _ => format!("{}{}", ch, ch),
                    };
                    let bytes = text.as_bytes();
                    for chunks in all_chunkings(bytes) {
                        if chunks.len() <= 3 {
                            c11_case(cc, &chunks, true, &mut l, "E3.scalars", "C11");
                        }
                    }
                    // byte at a time
                    let one: Vec<Vec<u8>> = bytes.iter().map(|x| vec![*x]).collect();
                    c11_case(cc, &one, true, &mut l, "E3.scalars", "C11");
                }
                // every proper prefix of the encoding, invalidated by an ASCII byte, a lead byte
                // or the end of a CSI (maximal-subpart rule: one U+FFFD for the whole prefix)
                let enc = ch.to_string().into_bytes();
                for k in 1..enc.len() {
                    for next in [vec![0x41u8], vec![0xc3, 0xa9], vec![0x1b, b'[', b'2', b'C'], vec![0xf0]] {
                        let mut w = vec![b'p'];
                        w.extend_from_slice(&enc[..k]);
                        w.extend_from_slice(&next);
                        w.push(b'q');
                        for chunks in all_chunkings(&w) {
                            if chunks.len() <= 3 {
                                c11_case(cc, &chunks, true, &mut l, "E3.truncated-scalars", "C11");
                            }
                        }
                    }
                }
            }
            cc.count("scalar_cases", l.n);
        } else if part == 1 {
            // 8-bit mode: every byte, alone and in pairs with representative neighbours
            for x in 0..=255u8 {
                c11_case(cc, &[vec![x]], false, &mut l, "E3.8bit", "C11");
                for y in [0x41u8, 0x80, 0xc3, 0xff, 0x1b] {
                    c11_case(cc, &[vec![x, y]], false, &mut l, "E3.8bit", "C11");
                    c11_case(cc, &[vec![x], vec![y]], false, &mut l, "E3.8bit", "C11");
                    c11_case(cc, &[vec![y], vec![x]], false, &mut l, "E3.8bit", "C11");
                }
            }
            cc.count("eightbit_cases", l.n);
        } else if part == 2 {
            // mode switches between chunks, also while an incomplete sequence is pending.
            // Reference = a streaming decoder with explicit state. D9 (narrowed): a tail pending at
            // the moment of "@" is either forgotten or flushed as one U+FFFD at the switch; it must
            // never combine with bytes that arrive after switching back.
            let pieces: Vec<Vec<u8>> = vec![
                b"a".to_vec(),
                "\u{e9}".as_bytes().to_vec(),
                vec![0xe9],
                vec![0xff],
                "\u{30a2}".as_bytes().to_vec(),
                vec![0x9b, b'5', b'A'],
                vec![0xc2, 0x9b, b'5', b'A'],
                vec![b'x', 0xe2, 0x82],
                vec![0xac, b'y'],
                vec![0xc3],
                // a BOM that is not at the start of the stream is a character like any other, also
                // after the decoder has been through a mode switch
                vec![0xef, 0xbb, 0xbf, b'b'],
            ];
            let reference = |chunks: &[Vec<u8>], sw: &[&str], flush_as_fffd: bool| -> Vec<Op> {
                let mut utf8 = true;
                let mut pending: Vec<u8> = Vec::new();
                let mut rec = crate::recog::Recog::new(true);
                for (i, ch) in chunks.iter().enumerate() {
                    if i >= 1 {
                        match sw[i - 1] {
                            "@" => {
                                if utf8 && !pending.is_empty() && flush_as_fffd {
                                    rec.feed("\u{fffd}");
                                }
                                pending.clear();
                                utf8 = false;
                            }
                            "G" | "8" => utf8 = true,
                            _ => {}
                        }
                    }
                    rec.utf8 = utf8;
                    if utf8 {
                        let mut bytes = std::mem::take(&mut pending);
                        bytes.extend_from_slice(ch);
                        let tail = utf8ref::incomplete_tail(&bytes);
                        let s = utf8ref::decode(&bytes[..bytes.len() - tail], true);
                        rec.feed(&s);
                        pending = bytes[bytes.len() - tail..].to_vec();
                    } else {
                        rec.feed(&utf8ref::decode(ch, false));
                    }
                }
                normalise(&rec.out)
            };
            for p1 in &pieces {
                for p2 in &pieces {
                    for p3 in &pieces {
                        for (m1, m2) in [("@", "G"), ("@", "8"), ("G", "@"), ("8", "@"), ("@", "@"), ("x", "G")] {
                            let chunks = vec![p1.clone(), p2.clone(), p3.clone()];
                            l.n += 1;
                            let exp_a = reference(&chunks, &[m1, m2], false);
                            let exp_b = reference(&chunks, &[m1, m2], true);
                            if exp_a != exp_b {
                                l.split_multibyte += 1;
                            }
                            let r = record_bytes(&chunks, true, &[(1, m1), (2, m2)]);
                            let op = Op::FeedBytes(chunks.clone(), true);
                            match r {
                                Err(m) => cc.violation(Violation {
                                    property: "C11".into(),
                                    engine: "E3.mode-switch".into(),
                                    sig: format!("mode-switch|panic:{}", crate::judge::panic_class(&m)),
                                    columns: 0,
                                    lines: 0,
                                    script: vec![],
                                    op: Some(op),
                                    detail: format!("switches {:?} then {:?}: {}", m1, m2, m),
                                    extra: json!({"switch_before_chunk_1": m1, "switch_before_chunk_2": m2}),
                                }),
                                Ok(after) => {
                                    let obs = normalise(after.last().unwrap());
                                    if !events_match(&exp_a, &obs) && !events_match(&exp_b, &obs) {
                                        cc.violation(Violation {
                                            property: "C11".into(),
                                            engine: "E3.mode-switch".into(),
                                            sig: format!("mode-switch|decoding-differs|{}{}", m1, m2),
                                            columns: 0,
                                            lines: 0,
                                            script: vec![],
                                            op: Some(op),
                                            detail: format!(
                                                "chunks {} with select_other_charset({:?}) before chunk 1 and ({:?}) before chunk 2: expected {:?} observed {:?}",
                                                chunks.iter().map(|x| hex(x)).collect::<Vec<_>>().join(" | "),
                                                m1,
                                                m2,
                                                exp_a.iter().map(|x| x.short()).collect::<Vec<_>>(),
                                                obs.iter().map(|x| x.short()).collect::<Vec<_>>()
                                            ),
                                            extra: json!({"switch_before_chunk_1": m1, "switch_before_chunk_2": m2}),
                                        });
                                    }
                                }
                            }
                        }
                    }
                }
            }
            cc.count("mode_switch_cases", l.n);
        } else {
            // BOM handling: at the start (D9) and in the middle (delivered)
            for w in [
                vec![0xefu8, 0xbb, 0xbf, b'a'],
                vec![b'a', 0xef, 0xbb, 0xbf, b'b'],
                vec![0xef, 0xbb, 0xbf, 0xef, 0xbb, 0xbf, b'c'],
                vec![0xef, 0xbb, 0xbf],
                // UTF-16 byte order marks are just two ill-formed bytes each
                vec![0xff, 0xfe, 0x41, 0x00, 0x42, 0x00],
                vec![0xfe, 0xff, 0x00, 0x41, 0x00, 0x42],
                vec![0xff, 0xfe, 0x00, 0x00, 0x41],
            ] {
                for chunks in all_chunkings(&w) {
                    c11_case(cc, &chunks, true, &mut l, "E3.bom", "C11");
                }
            }
            cc.count("bom_cases", l.n);
            // two byte parsers on one listener, interleaved: decoder state is per parser
            let pieces: Vec<(Vec<u8>, Vec<u8>)> = vec![
                (vec![0xe2, 0x82], vec![0xac, b'x']),
                (vec![b'a', 0xf0, 0x9f], vec![0x98, 0x80]),
                (vec![0xc3], vec![0xa9]),
                (vec![0x1b, b'[', b'5'], vec![b'C', b'y']),
            ];
            for (a, b) in &pieces {
                for mid in [b"q".to_vec(), vec![0xe2, 0x82], vec![0xff], vec![0xc3, 0xa9], b"\x1b[2;2H".to_vec(), vec![]] {
                    l.n += 1;
                    let mut exp: Vec<Op> = Vec::new();
                    let dec = |bytes: &[u8]| -> Vec<Op> {
                        let t = utf8ref::incomplete_tail(bytes);
                        let s = utf8ref::decode(&bytes[..bytes.len() - t], true);
                        recognise(&s, true).0
                    };
                    // parser 1 sees a ++ b, parser 2 sees mid; events in feed order
                    let e1a = dec(a);
                    let mut whole = a.clone();
                    whole.extend_from_slice(b);
                    let e1 = dec(&whole);
                    exp.extend(e1a.clone());
                    exp.extend(dec(&mid));
                    // what parser 1 adds in its second feed = e1 minus what it had delivered already
                    let mut rec = crate::recog::Recog::new(true);
                    let ta = utf8ref::incomplete_tail(a);
                    rec.feed(&utf8ref::decode(&a[..a.len() - ta], true));
                    rec.out.clear();
                    let tw = utf8ref::incomplete_tail(&whole);
                    rec.feed(&utf8ref::decode(&whole[a.len() - ta..whole.len() - tw], true));
                    exp.extend(rec.out.clone());
                    let _ = e1;
                    let obs = guarded(|| {
                        let rec = Arc::new(Mutex::new(Rec::default()));
                        {
                            let mut p1 = ByteParser::new(rec.clone());
                            let mut p2 = ByteParser::new(rec.clone());
                            p1.feed(a);
                            p2.feed(&mid);
                            p1.feed(b);
                        }
                        let ev = std::mem::take(&mut rec.lock().unwrap().ev);
                        ev
                    });
                    let op = Op::FeedBytes(vec![a.clone(), mid.clone(), b.clone()], true);
                    match obs {
                        Err(m) => cc.violation(Violation {
                            property: "C11".into(),
                            engine: "E3.two-parsers".into(),
                            sig: format!("two-parsers|panic:{}", crate::judge::panic_class(&m)),
                            columns: 0,
                            lines: 0,
                            script: vec![],
                            op: Some(op),
                            detail: m,
                            extra: json!({}),
                        }),
                        Ok(ev) => {
                            let (e, o) = (normalise(&exp), normalise(&ev));
                            if !events_match(&e, &o) {
                                cc.violation(Violation {
                                    property: "C11".into(),
                                    engine: "E3.two-parsers".into(),
                                    sig: "two-parsers|decoding-differs".into(),
                                    columns: 0,
                                    lines: 0,
                                    script: vec![],
                                    op: Some(op),
                                    detail: format!(
                                        "byte parser 1 fed {}, a second byte parser on the same listener fed {}, parser 1 fed {}: expected {:?} observed {:?}",
                                        hex(a),
                                        hex(&mid),
                                        hex(b),
                                        e.iter().map(|x| x.short()).collect::<Vec<_>>(),
                                        o.iter().map(|x| x.short()).collect::<Vec<_>>()
                                    ),
                                    extra: json!({"chunks": "[parser1, parser2, parser1]"}),
                                });
                            }
                        }
                    }
                }
            }
            cc.count("two_parser_cases", 24);
        }
        cc.add_transitions(l.n);
        cc.count("oracle_checks", l.n);
        cc.count("cases", l.n);
        cc.count("chunk_ends_inside_multibyte", l.split_multibyte);
        cc.outcomes(&l.outcomes);
    });
    for cr in crashes {
        c.crash(format!("E3 worker {} ended abnormally ({}), partition {:?}", cr.child, cr.how, cr.last_part));
    }
    // long streams (ill-formed bytes expand to three-byte U+FFFD; buffers sized from the input would overflow)
    let longb = long_byte_streams();
    let crashes = fork_map(c, longb.len(), Duration::from_secs(crate::explore::sweep_timeout_s()), |part, cc| {
        let mut l = E3Local::new();
        let (_, bytes) = &longb[part];
        for utf8 in [true, false] {
            c11_case(cc, &[bytes.clone()], utf8, &mut l, "E3.long", "C11");
            for k in [1usize, 7, 1000, 2048, 4096, 4097] {
                // (the per-chunk check is quadratic in the number of chunks)
                if k < bytes.len() && bytes.len() / k <= 1500 {
                    let chunks: Vec<Vec<u8>> = bytes.chunks(k).map(|x| x.to_vec()).collect();
                    c11_case(cc, &chunks, utf8, &mut l, "E3.long", "C11");
                }
            }
        }
        cc.add_transitions(l.n);
        cc.count("oracle_checks", l.n);
        cc.count("cases", l.n);
        cc.count("long_cases", l.n);
        cc.outcomes(&l.outcomes);
    });
    for cr in crashes {
        c.crash(format!("E3 long worker {} ended abnormally ({}), partition {:?}", cr.child, cr.how, cr.last_part));
    }
    c.sample(json!({"bytes": "e2 9e | 9c", "utf8": true, "expected_after_chunk_0": [], "expected_after_chunk_1": ["draw(\\u{279c})"]}));
    c.sample(json!({"bytes": "41 ff 41", "utf8": true, "expected": ["draw(A\\u{fffd}A)"]}));
    c.sample(json!({"bytes": "e0 80", "utf8": true, "expected": ["draw(\\u{fffd}\\u{fffd})"]}));
    g.need(c, "bom_cases");
    g.need(c, "byte_strings");
    g.need(c, "chunk_ends_inside_multibyte");
    g.need(c, "invalid_streams");
    g.need(c, "scalar_cases");
    g.need(c, "eightbit_cases");
    g.need(c, "mode_switch_cases");
    g.need(c, "long_cases");
}

// =====================================================================  C02
fn snap_sans_nothing(s: &Screen) -> Snap {
    // implementation vs implementation: the stored strings themselves are compared
    crate::snapshot::snap_raw(s)
}

fn chunk_diff(a: &Snap, b: &Snap) -> String {
    let diffs = crate::refscreen::compare(a, b, &Default::default(), &crate::refscreen::ALL_COMPS);
    if let Some(d) = diffs.first() {
        format!("{:?}: {}", d.0, d.1)
    } else if a.dirty != b.dirty {
        format!("dirty single-feed {:?} chunked {:?}", a.dirty, b.dirty)
    } else if a.tabstops != b.tabstops {
        format!("tab stops single-feed {:?} chunked {:?}", a.tabstops, b.tabstops)
    } else {
        "states differ".into()
    }
}

fn char_partitions(chars: &[char]) -> Vec<Vec<String>> {
    let n = chars.len();
    let mut out = Vec::new();
    if n == 0 {
        return vec![vec![]];
    }
    if n <= 8 {
        for mask in 0u32..(1 << (n - 1)) {
            let mut chunks = Vec::new();
            let mut cur = String::new();
            cur.push(chars[0]);
            for i in 1..n {
                if mask & (1 << (i - 1)) != 0 {
                    chunks.push(std::mem::take(&mut cur));
                }
                cur.push(chars[i]);
            }
            chunks.push(cur);
            out.push(chunks);
        }
    } else {
        out.push(vec![chars.iter().collect()]);
        for cut in 1..n {
            out.push(vec![chars[..cut].iter().collect(), chars[cut..].iter().collect()]);
        }
        out.push(chars.iter().map(|c| c.to_string()).collect());
    }
    out
}

struct C02Local {
    n: u64,
    cut_in_csi: u64,
    cut_in_multibyte: u64,
    outcomes: HashSet<u64>,
}

fn c02_chars(c: &Collector, start: &Screen, script: &[Op], w: &str, utf8: bool, l: &mut C02Local) {
    let chars: Vec<char> = w.chars().collect();
    let single = screen_after_chars(start, &[w.to_string()], utf8);
    let parts = char_partitions(&chars);
    let base = match &single {
        Ok(s) => Some(snap_sans_nothing(s)),
        Err(_) => None,
    };
    if let Some(b) = &base {
        l.outcomes.insert(crate::snapshot::snap_key(b));
    }
    for chunks in parts.iter() {
        let mut variants: Vec<Vec<String>> = vec![chunks.clone()];
        if chunks.len() <= 2 {
            // empty chunks are no-ops
            for pos in 0..=chunks.len() {
                let mut v = chunks.clone();
                v.insert(pos, String::new());
                variants.push(v);
            }
        }
        for v in variants {
            if v.len() == 1 && v[0] == w {
                continue;
            }
            l.n += 1;
            // cut inside a CSI?
            let mut acc = String::new();
            for ch in v.iter().take(v.len().saturating_sub(1)) {
                acc.push_str(ch);
                let (_, ground, _) = recognise(&acc, utf8);
                if !ground {
                    l.cut_in_csi += 1;
                    break;
                }
            }
            let r = screen_after_chars(start, &v, utf8);
            let op = Op::Feed(v.clone(), utf8);
            c02_verdict(c, start, script, op, &base, &single, r, "chars");
        }
    }
}

#[allow(clippy::too_many_arguments)]
pub fn c02_verdict(c: &Collector, start: &Screen, script: &[Op], op: Op, base: &Option<Snap>, single: &Result<Screen, String>, r: Result<Screen, String>, kind: &str) {
    let mk = |class: String, detail: String| Violation {
        property: "C02".into(),
        engine: format!("E1E3.chunking.{}", kind),
        sig: class,
        columns: start.columns,
        lines: start.lines,
        script: script.to_vec(),
        op: Some(op.clone()),
        detail,
        extra: json!({}),
    };
    match (base, r) {
        (Some(b), Ok(s)) => {
            let o = snap_sans_nothing(&s);
            if *b != o {
                c.violation(mk(format!("chunking|state-differs|{}", kind), format!("{}: chunked run differs from the single feed: {}", op.short(), chunk_diff(b, &o))));
            }
        }
        (Some(_), Err(m)) => c.violation(mk(
            format!("chunking|panic-only-when-chunked:{}|{}", crate::judge::panic_class(&m), kind),
            format!("{}: panics when chunked but not in a single feed: {}", op.short(), m),
        )),
        (None, Ok(_)) => c.violation(mk(
            format!("chunking|panic-only-single|{}", kind),
            format!("{}: the single feed panics ({}) but the chunked run does not", op.short(), single.as_ref().err().cloned().unwrap_or_default()),
        )),
        (None, Err(_)) => {}
    }
}

fn c02_bytes(c: &Collector, start: &Screen, script: &[Op], w: &[u8], utf8: bool, l: &mut C02Local, all_parts: bool) {
    let single = screen_after_bytes(start, &[w.to_vec()], utf8);
    let base = match &single {
        Ok(s) => Some(snap_sans_nothing(s)),
        Err(_) => None,
    };
    if let Some(b) = &base {
        l.outcomes.insert(crate::snapshot::snap_key(b));
    }
    let parts: Vec<Vec<Vec<u8>>> = if all_parts && w.len() <= 8 {
        all_chunkings(w)
    } else {
        let mut v = Vec::new();
        for cut in 1..w.len() {
            v.push(vec![w[..cut].to_vec(), w[cut..].to_vec()]);
        }
        v.push(w.iter().map(|x| vec![*x]).collect());
        v
    };
    for chunks in parts {
        let mut variants = vec![chunks.clone()];
        if chunks.len() <= 2 {
            variants.extend(with_empty_chunks(&chunks));
        }
        for v in variants {
            if v.len() == 1 {
                continue;
            }
            l.n += 1;
            let mut end = 0;
            for ch in v.iter().take(v.len() - 1) {
                end += ch.len();
                if utf8 && utf8ref::incomplete_tail(&w[..end]) > 0 {
                    l.cut_in_multibyte += 1;
                    break;
                }
            }
            let r = screen_after_bytes(start, &v, utf8);
            let op = Op::FeedBytes(v.clone(), utf8);
            c02_verdict(c, start, script, op, &base, &single, r, "bytes");
        }
    }
}

/// Macro-words: complete control functions, so that chunk boundaries fall inside and between them.
pub fn macro_alphabet() -> Vec<&'static str> {
    vec![
        "a", "\u{30a2}", "e\u{301}", "\r", "\n", "\x08", "\t", "\x1bM", "\x1bD", "\x1bE", "\x1b7", "\x1b8", "\x1bc",
        "\x1bH", "\x1b#8", "\x1b[2;3H", "\x1b[H", "\x1b[2J", "\x1b[K", "\x1b[1K", "\x1b[@", "\x1b[2P", "\x1b[L",
        "\x1b[M", "\x1b[2;3r", "\x1b[r", "\x1b[?6h", "\x1b[?7l", "\x1b[4h", "\x1b[20h", "\x1b[?5h", "\x1b[1;31;44m",
        "\x1b[38;5;196m", "\x1b[m", "\x1b]0;t\x07", "\x1b]2;u\x1b\\", "\x1b[3g", "\x1b[?25l", "\x1b(0", "\x0e", "\u{9b}5C",
        "\x1b[?3h", "\x1b%G", "\x1b[5$p", "\x1b[1;\n2H", "\x1b%@", "\x1b%8", "\u{e9}", "\x1b)U",
        // a zero-width no-break space (= byte order mark) in the middle of the stream is a character
        "\x1b]2;a\u{feff}b\x07",
    ]
}

/// Sequences that end WITHOUT a dispatch, or through an unusual path, and so are the
/// natural places for parser state (parameter list, private flag, intermediate
/// flags) to leak into the next sequence.
pub fn poison_sequences() -> Vec<&'static str> {
    vec!["\x1b[5;1;8;20$z", "\x1b[3;\x18", "\x1b[?25$p", "\x1b#3", "\x1b[?7\x1a", "\x1b%@", "\x1b]Rx", "\x1b[?1;2z"]
}

/// Macro alphabet for multi-sequence words: complete control functions, the poison
/// sequences, and a few sequences whose meaning depends on leaked state.
pub fn macro_alphabet_ext() -> Vec<&'static str> {
    let mut v = macro_alphabet();
    v.extend(poison_sequences());
    v.extend(["\x1b[>4h", "\x1b[ 4l", "\x1b[>c", "\x1b[>0;1m", "\x1b[4 h", "\x1b[?>25l", "\x1b[s", "\x1b[u", "\x1b[5n", "\x1b[2S", "\x1b[2T", "\x1b[3b", "\x1b[Z", "\x1b[2 q", "\x1b[?2004h"]);
    v.extend(["\x1b[4l", "\x1b[B", "\x1b[C", "\x1b[A", "\x1b[h", "\x1b[?5l", "\x1b(B", "\x1b)0", "\x1b]P1234567", "\x1b[25l", "\x1b[;H", "\x1b[d", "\x1b[G", "\x1b[J", "\x1b[X", "\x1b[P", "\x1b[g", "\x0f", "\x1b[1;2", "\x1b", "\x1b]0;x"]);
    v.sort();
    v.dedup();
    v
}

/// Long inputs: what a small-scope enumeration cannot reach by construction -- long
/// parameter lists, long OSC strings, long digit runs, long runs of text. (name, text)
pub fn long_streams() -> Vec<(String, String)> {
    let mut v: Vec<(String, String)> = Vec::new();
    for n in [16usize, 17, 18, 32, 33, 64, 65, 100, 256, 257, 1000] {
        let list: Vec<String> = (1..=n).map(|i| format!("{}", i % 10)).collect();
        for f in ['H', 'm', 'B', 'r', 'h', 'J', 'z'] {
            v.push((format!("params{}{}", n, f), format!("\x1b[{}{}x", list.join(";"), f)));
        }
        let mut z = vec!["0"; n.saturating_sub(3)];
        z.extend(["1", "4", "7"]);
        v.push((format!("sgr-tail{}", n), format!("\x1b[{}mX", z.join(";"))));
        let empties = ";".repeat(n);
        v.push((format!("empty-params{}", n), format!("\x1b[{}3Hq", empties)));
    }
    // beyond "generous" fixed capacities (1024 / 4096 / 65536 entries or bytes)
    for n in [1023usize, 1024, 1025, 1100, 4096, 4097, 5000, 65537] {
        let list: Vec<String> = (1..=n).map(|i| format!("{}", i % 10)).collect();
        for f in ['H', 'm'] {
            v.push((format!("params{}{}", n, f), format!("\x1b[{}{}x", list.join(";"), f)));
        }
        let mut z = vec!["0"; n - 3];
        z.extend(["1", "4", "7"]);
        v.push((format!("sgr-tail{}", n), format!("\x1b[{}mX", z.join(";"))));
    }
    for l in [65535usize, 65536, 65537, 70000, 300000] {
        v.push((format!("osc-ascii{}", l), format!("\x1b]2;{}\x07y", "a".repeat(l))));
        v.push((format!("osc-cjk{}", l), format!("\x1b]0;{}\x1b\\y", "\u{65e5}".repeat(l / 3 + 1))));
        v.push((format!("text{}", l), "abcdefghij".repeat(l / 10)));
    }
    v.push(("sgr-17".into(), "\x1b[0;38;2;255;128;0;48;2;0;0;64;1;3;4;5;7;9mX".into()));
    for l in [255usize, 256, 1022, 1023, 1024, 1025, 2047, 2048, 4095, 4096, 4097, 10000] {
        for (intro, term) in [("\x1b]", "\x07"), ("\u{9d}", "\u{9c}"), ("\x1b]", "\x1b\\")] {
            v.push((format!("osc-ascii{}", l), format!("{}2;{}{}y", intro, "a".repeat(l), term)));
        }
        v.push((format!("osc-cjk{}", l), format!("\x1b]0;{}\x07y", "\u{65e5}".repeat(l / 3 + 1))));
        v.push((format!("osc-semicolons{}", l), format!("\x1b]1;{}\x07y", "a;".repeat(l / 2))));
    }
    for n in [21usize, 22, 31, 32, 33, 63, 64, 65, 100, 300] {
        v.push((format!("marks-on-x{}", n), format!("x{}y", "\u{301}".repeat(n))));
        v.push((format!("marks-on-blank{}", n), format!("\x1b[2;2H{}z", "\u{308}".repeat(n))));
        v.push((format!("vs-on-wide{}", n), format!("\u{30a2}{}w", "\u{fe0f}".repeat(n))));
        v.push((format!("marks-at-margin{}", n), format!("\x1b[1;9999H#{}", "\u{301}".repeat(n))));
    }
    for l in [100usize, 1000, 5000] {
        v.push((format!("digits{}", l), format!("\x1b[{};{}Hz", "7".repeat(l), "0".repeat(l))));
        v.push((format!("text{}", l), "abcdefghij".repeat(l / 10)));
        v.push((format!("wide-text{}", l), "\u{30a2}b".repeat(l / 10)));
        v.push((format!("combining-text{}", l), "e\u{301}".repeat(l / 10)));
        v.push((format!("csi-spaces{}", l), format!("\x1b[{}5C!", " ".repeat(l))));
        v.push((format!("csi-controls{}", l), format!("\x1b[2{};3Hq", "\n".repeat(l.min(200)))));
    }
    v
}

/// Long byte streams with ill-formed UTF-8 (every ill-formed byte becomes a three-byte U+FFFD).
pub fn long_byte_streams() -> Vec<(String, Vec<u8>)> {
    let mut v = Vec::new();
    for l in [1000usize, 1367, 4096, 4100, 6000, 10000, 21846, 65536, 65537, 70000, 200000] {
        let pat: Vec<u8> = (0..l).map(|i| [0x41u8, 0xe9, 0x42, 0xff, 0x20, 0xc3, 0xa9, 0x80][i % 8]).collect();
        v.push((format!("latin1-ish{}", l), pat));
        v.push((format!("all-ff{}", l), vec![0xffu8; l]));
        let mut t: Vec<u8> = "\u{65e5}\u{672c}".repeat(l / 6).into_bytes();
        t.truncate(l.saturating_sub(1)); // ends inside a character
        v.push((format!("cjk-truncated{}", l), t));
    }
    v
}

pub fn c02(c: &Collector, g: &mut Guard) {
    let a = alphabet_a();
    let start_small = {
        let mut s = Screen::new(4, 3);
        s.draw("ab");
        s
    };
    let small_script = vec![Op::Draw("ab".into())];
    let start_big = Screen::new(80, 24);
    let n0 = if c.thorough() { 3 } else { 2 };
    let macros = macro_alphabet();
    let mlen = if c.thorough() { 3 } else { 2 };
    c.bound("char_word_cube_length", json!(n0));
    c.bound("macro_word_length", json!(mlen));
    c.bound("macro_alphabet_size", json!(macros.len()));
    c.bound("partitions", json!("all 2^(n-1) partitions for length <= 8, else every 2-way cut + one-at-a-time; empty chunks inserted at every position of 1- and 2-chunk partitions"));
    // (1) E1 word cube on the char-level parser (both modes), 4x3 screen
    let crashes = fork_map(c, a.len(), Duration::from_secs(crate::explore::sweep_timeout_s()), |part, cc| {
        let mut l = C02Local { n: 0, cut_in_csi: 0, cut_in_multibyte: 0, outcomes: HashSet::new() };
        let mut stack = vec![a[part].to_string()];
        let mut words = 0u64;
        while let Some(w) = stack.pop() {
            words += 1;
            let full = format!("{}{}", w, PROBE);
            for utf8 in [true, false] {
                c02_chars(cc, &start_small, &small_script, &full, utf8, &mut l);
            }
            // the same word as UTF-8 bytes through ByteParser
            c02_bytes(cc, &start_small, &small_script, full.as_bytes(), true, &mut l, true);
            if w.chars().count() < n0 {
                for ch in &a {
                    let mut w2 = w.clone();
                    w2.push(*ch);
                    stack.push(w2);
                }
            }
        }
        cc.add_transitions(l.n);
        cc.count("oracle_checks", l.n);
        cc.add_states(words);
        cc.count("words", words);
        cc.count("chunked_runs", l.n);
        cc.count("cut_inside_sequence", l.cut_in_csi);
        cc.count("cut_inside_multibyte", l.cut_in_multibyte);
        cc.outcomes(&l.outcomes);
    });
    for cr in crashes {
        c.crash(format!("C02 worker {} ended abnormally ({}), partition {:?}", cr.child, cr.how, cr.last_part));
    }
    // (2) macro-words (sequences of complete control functions) as bytes, all 2-way cuts + byte-at-a-time
    let nm = macros.len();
    let crashes = fork_map(c, nm, Duration::from_secs(crate::explore::sweep_timeout_s()), |part, cc| {
        let mut l = C02Local { n: 0, cut_in_csi: 0, cut_in_multibyte: 0, outcomes: HashSet::new() };
        let mut stack = vec![vec![part]];
        let mut words = 0u64;
        while let Some(w) = stack.pop() {
            words += 1;
            let text: String = w.iter().map(|i| macros[*i]).collect::<Vec<_>>().join("");
            let full = format!("{}zz", text);
            c02_bytes(cc, &start_small, &small_script, full.as_bytes(), true, &mut l, false);
            if w.len() == 1 {
                c02_bytes(cc, &start_big, &[], full.as_bytes(), true, &mut l, false);
                // 8-bit mode (latin-1 bytes)
                let b8: Vec<u8> = full.chars().filter(|ch| (*ch as u32) < 256).map(|ch| ch as u32 as u8).collect();
                c02_bytes(cc, &start_small, &small_script, &b8, false, &mut l, false);
            }
            if w.len() < mlen {
                for i in 0..nm {
                    let mut w2 = w.clone();
                    w2.push(i);
                    stack.push(w2);
                }
            }
        }
        cc.add_transitions(l.n);
        cc.count("oracle_checks", l.n);
        cc.add_states(words);
        cc.count("macro_words", words);
        cc.count("chunked_runs", l.n);
        cc.count("cut_inside_multibyte", l.cut_in_multibyte);
        cc.outcomes(&l.outcomes);
    });
    for cr in crashes {
        c.crash(format!("C02 macro worker {} ended abnormally ({}), partition {:?}", cr.child, cr.how, cr.last_part));
    }
    // (3) E3 byte cube
    let b = byte_alphabet();
    let nbytes = if c.thorough() { 4 } else { 3 };
    let crashes = fork_map(c, b.len(), Duration::from_secs(crate::explore::sweep_timeout_s()), |part, cc| {
        let mut l = C02Local { n: 0, cut_in_csi: 0, cut_in_multibyte: 0, outcomes: HashSet::new() };
        let mut stack: Vec<Vec<u8>> = vec![vec![b[part]]];
        let mut words = 0u64;
        while let Some(w) = stack.pop() {
            words += 1;
            let mut full = w.clone();
            full.extend_from_slice(b"q");
            c02_bytes(cc, &start_small, &small_script, &full, true, &mut l, true);
            c02_bytes(cc, &start_small, &small_script, &full, false, &mut l, true);
            if w.len() < nbytes {
                for x in &b {
                    let mut w2 = w.clone();
                    w2.push(*x);
                    stack.push(w2);
                }
            }
        }
        cc.add_transitions(l.n);
        cc.count("oracle_checks", l.n);
        cc.add_states(words);
        cc.count("byte_strings", words);
        cc.count("chunked_runs", l.n);
        cc.count("cut_inside_multibyte", l.cut_in_multibyte);
        cc.outcomes(&l.outcomes);
    });
    for cr in crashes {
        c.crash(format!("C02 byte worker {} ended abnormally ({}), partition {:?}", cr.child, cr.how, cr.last_part));
    }
    // (3b) long inputs: single feed vs fixed-size chunkings, on an 80x24 screen
    // the two longest members (200000 / 300000) only in the thorough tier here: C02 feeds every
    // stream under a dozen chunk sizes (C03, C11 and C19 take them in both tiers)
    let big = |n: &str| n.ends_with("300000") || n.ends_with("200000");
    let longs: Vec<(String, String)> = long_streams().into_iter().filter(|(n, _)| c.thorough() || !big(n)).collect();
    let longb: Vec<(String, Vec<u8>)> = long_byte_streams().into_iter().filter(|(n, _)| c.thorough() || !big(n)).collect();
    let crashes = fork_map(c, 16, Duration::from_secs(crate::explore::sweep_timeout_s()), |part, cc| {
        let mut n = 0u64;
        let mut outcomes = HashSet::new();
        let mut run = |bytes: &[u8], utf8: bool, cc: &Collector| {
            let single = screen_after_bytes(&start_big, &[bytes.to_vec()], utf8);
            let base = single.as_ref().ok().map(snap_sans_nothing);
            if let Some(b) = &base {
                outcomes.insert(crate::snapshot::snap_key(b));
            }
            for k in [1usize, 2, 3, 7, 16, 64, 1000, 1024, 2048, 4095, 4096, 4097] {
                if k >= bytes.len() {
                    continue;
                }
                let chunks: Vec<Vec<u8>> = bytes.chunks(k).map(|x| x.to_vec()).collect();
                n += 1;
                let r = screen_after_bytes(&start_big, &chunks, utf8);
                let op = Op::FeedBytes(chunks, utf8);
                c02_verdict(cc, &start_big, &[], op, &base, &single, r, &format!("long.k{}", k));
            }
            // one cut in the middle
            let mid = bytes.len() / 2;
            n += 1;
            let r = screen_after_bytes(&start_big, &[bytes[..mid].to_vec(), bytes[mid..].to_vec()], utf8);
            let op = Op::FeedBytes(vec![bytes[..mid].to_vec(), bytes[mid..].to_vec()], utf8);
            c02_verdict(cc, &start_big, &[], op, &base, &single, r, "long.mid");
        };
        for (i, (_, text)) in longs.iter().enumerate() {
            if i % 16 == part {
                run(text.as_bytes(), true, cc);
            }
        }
        for (i, (_, bytes)) in longb.iter().enumerate() {
            if i % 16 == part {
                run(bytes, true, cc);
                run(bytes, false, cc);
            }
        }
        // the char-level parser: whole vs one char at a time vs 100-char chunks
        for (i, (_, text)) in longs.iter().enumerate() {
            if i % 16 != part {
                continue;
            }
            let single = screen_after_chars(&start_big, &[text.clone()], true);
            let base = single.as_ref().ok().map(snap_sans_nothing);
            let chars: Vec<char> = text.chars().collect();
            for k in [1usize, 100] {
                let chunks: Vec<String> = chars.chunks(k).map(|x| x.iter().collect()).collect();
                n += 1;
                let r = screen_after_chars(&start_big, &chunks, true);
                let op = Op::Feed(chunks, true);
                c02_verdict(cc, &start_big, &[], op, &base, &single, r, &format!("long.chars.k{}", k));
            }
        }
        cc.add_transitions(n);
        cc.count("oracle_checks", n);
        cc.count("long_stream_runs", n);
        cc.outcomes(&outcomes);
    });
    for cr in crashes {
        c.crash(format!("C02 long worker {} ended abnormally ({}), partition {:?}", cr.child, cr.how, cr.last_part));
    }
    // (4) captured sessions
    c02_sessions(c);
    c.sample(json!({"stream": esc("\x1b[2;3Hy"), "partition": [esc("\x1b["), "2;3Hy"], "oracle": "snapshot(single feed) == snapshot(chunked)"}));
    c.sample(json!({"stream_bytes": "e3 82 a2", "partition": ["e3", "82 a2"]}));
    g.need(c, "words");
    g.need(c, "macro_words");
    g.need(c, "byte_strings");
    g.need(c, "cut_inside_sequence");
    g.need(c, "cut_inside_multibyte");
    g.need(c, "session_runs");
    g.need(c, "long_stream_runs");
}

fn repo_dir() -> String {
    std::env::var("VERIF_REPO").unwrap_or_else(|_| "/repo".to_string())
}

pub fn session_names() -> Vec<&'static str> {
    vec!["ls", "top", "vi", "htop", "mc", "cat-gpl3", "find-etc"]
}

fn c02_sessions(c: &Collector) {
    let names = session_names();
    let thorough = c.thorough();
    let mut jobs: Vec<(usize, usize, usize)> = Vec::new(); // (session, first cut, last cut exclusive)
    let mut datas: Vec<Vec<u8>> = Vec::new();
    for (i, n) in names.iter().enumerate() {
        let p = format!("{}/assets/captured/{}.input", repo_dir(), n);
        let d = match std::fs::read(&p) {
            Ok(d) => d,
            Err(e) => {
                c.crash(format!("cannot read captured session {}: {}", p, e));
                return;
            }
        };
        let len = d.len();
        datas.push(d);
        let exhaustive = len <= 4300;
        let (stride, window) = if exhaustive {
            (if thorough { 1 } else { 7 }, 0)
        } else if thorough {
            (64, 2000)
        } else {
            (997, 0)
        };
        let _ = window;
        let step = 400 * stride;
        let mut s = 1;
        while s < len {
            jobs.push((i, s, (s + step).min(len)));
            s += step;
        }
        c.bound(&format!("session_{}_cuts", n), json!(if stride == 1 { format!("every 2-way cut (1..{})", len) } else { format!("every {}th 2-way cut (stride, not exhaustive)", stride) }));
    }
    let crashes = fork_map(c, jobs.len(), Duration::from_secs(crate::explore::sweep_timeout_s()), |part, cc| {
        let (si, from, to) = jobs[part];
        let d = &datas[si];
        let exhaustive = d.len() <= 4300;
        let stride = if exhaustive {
            if thorough {
                1
            } else {
                7
            }
        } else if thorough {
            64
        } else {
            997
        };
        let start = Screen::new(80, 24);
        let single = match screen_after_bytes(&start, &[d.clone()], true) {
            Ok(s) => crate::snapshot::snap_raw(&s),
            Err(m) => {
                cc.violation(Violation {
                    property: "C02".into(),
                    engine: "E5.sessions".into(),
                    sig: format!("session|panic-single:{}", crate::judge::panic_class(&m)),
                    columns: 80,
                    lines: 24,
                    script: vec![],
                    op: None,
                    detail: format!("session {} panics in a single feed: {}", names[si], m),
                    extra: json!({"session": names[si]}),
                });
                return;
            }
        };
        let mut n = 0u64;
        let mut cut = from;
        while cut < to {
            n += 1;
            let r = screen_after_bytes(&start, &[d[..cut].to_vec(), d[cut..].to_vec()], true);
            session_verdict(cc, names[si], &single, r, format!("2-way cut at byte {}", cut), json!({"session": names[si], "cut": cut}));
            cut += stride;
        }
        if from == 1 {
            // byte-at-a-time
            n += 1;
            let chunks: Vec<Vec<u8>> = d.iter().map(|x| vec![*x]).collect();
            let r = screen_after_bytes(&start, &chunks, true);
            session_verdict(cc, names[si], &single, r, "byte-at-a-time".into(), json!({"session": names[si], "cut": "each"}));
            // 7-byte chunks
            let chunks: Vec<Vec<u8>> = d.chunks(7).map(|x| x.to_vec()).collect();
            let r = screen_after_bytes(&start, &chunks, true);
            session_verdict(cc, names[si], &single, r, "7-byte chunks".into(), json!({"session": names[si], "cut": "7"}));
        }
        cc.add_transitions(n);
        cc.count("oracle_checks", n);
        cc.count("session_runs", n);
    });
    for cr in crashes {
        c.crash(format!("C02 session worker {} ended abnormally ({}), partition {:?}", cr.child, cr.how, cr.last_part));
    }
}

fn session_verdict(c: &Collector, name: &str, single: &Snap, r: Result<Screen, String>, how: String, extra: serde_json::Value) {
    let mk = |class: String, detail: String| Violation {
        property: "C02".into(),
        engine: "E5.sessions".into(),
        sig: class,
        columns: 80,
        lines: 24,
        script: vec![],
        op: None,
        detail,
        extra: extra.clone(),
    };
    match r {
        Err(m) => c.violation(mk(format!("session|panic-chunked:{}", crate::judge::panic_class(&m)), format!("session {} {}: {}", name, how, m))),
        Ok(s) => {
            let o = crate::snapshot::snap_raw(&s);
            if o != *single {
                c.violation(mk("session|state-differs".into(), format!("session {} {}: {}", name, how, chunk_diff(single, &o))));
            }
        }
    }
}
