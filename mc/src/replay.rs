//! `mc replay <file>`: re-execute one recorded violation (twice, each in a fresh
//! worker process) and report whether it still fails.

use std::collections::HashSet;
use std::time::Duration;

use memterm::screen::Screen;
use serde_json::Value;

use crate::explore::{run_op, Local, Trans};
use crate::isolate::fork_map;
use crate::judge::*;
use crate::ops::{build, Op};
use crate::props3::{screen_after_bytes, screen_after_chars, E1Local, E3Local};
use crate::report::Collector;
use crate::snapshot::snap;

fn judge_e2(c: &Collector, prop: &str, engine: &str, t: &Trans, local: &mut Local) {
    match prop {
        "C01" => {
            crate::props4::c01_api_judge(c, t, engine, local);
        }
        "C09" => {
            invariant(c, prop, engine, t, local);
        }
        "C10" => {
            // display faithful + pure, and the paired run
            if matches!(t.op, Op::Display) {
                match t.outcome {
                    Err(m) => c.violation(mk_violation(prop, engine, t, &format!("panic:{}", panic_class(m)), format!("display() panicked: {}", m), serde_json::json!({}))),
                    Ok((_, post, d)) => {
                        if let Some(m) = crate::props2::check_display(t.pre, d.as_ref().unwrap()) {
                            c.violation(mk_violation(prop, engine, t, "mismatch:rendering", m, serde_json::json!({})));
                        }
                        if post != t.pre {
                            c.violation(mk_violation(prop, engine, t, "impure:state-changed", "display() changed the observable state".into(), serde_json::json!({})));
                        }
                    }
                }
            } else {
                // two-step variant: display() interposed before the LAST script operation
                if t.script.len() >= 1 {
                    let n = t.script.len();
                    if let Ok(mut alt) = build(t.columns, t.lines, &t.script[..n - 1]) {
                        if crate::ops::apply(&mut alt, &Op::Display).is_ok() && crate::ops::apply(&mut alt, &t.script[n - 1]).is_ok() {
                            let with = run_op(&alt, t.op);
                            if let (Ok((_, a, _)), Ok((_, b, _))) = (t.outcome, &with) {
                                if a != b {
                                    c.violation(mk_violation(prop, engine, t, "impure:later-ops-differ", "the last two operations end in a different state when display() was called before them".into(), serde_json::json!({})));
                                }
                            }
                        }
                    }
                }
                let mut s2 = t.pre_screen.clone();
                if crate::ops::apply(&mut s2, &Op::Display).is_ok() {
                    let with = run_op(&s2, t.op);
                    match (t.outcome, &with) {
                        (Ok((_, a, _)), Ok((_, b, _))) => {
                            if a != b {
                                let diffs = crate::refscreen::compare(a, b, &Default::default(), &crate::refscreen::ALL_COMPS);
                                c.violation(mk_violation(
                                    prop,
                                    engine,
                                    t,
                                    "impure:later-op-differs",
                                    format!("op after display() ends in a different state: {}", diffs.first().map(|d| d.1.clone()).unwrap_or_else(|| "dirty".into())),
                                    serde_json::json!({}),
                                ));
                            }
                        }
                        (Err(_), Err(_)) => {}
                        _ => c.violation(mk_violation(prop, engine, t, "impure:panic-one-side", "op panics on one side only".into(), serde_json::json!({}))),
                    }
                }
            }
        }
        "C15" => crate::props2::c15_compare(c, t, engine, local, 2),
        "C16" => {
            crate::props2::c16_judge(c, t, engine, local);
        }
        "C17" => {
            crate::props2::c17_judge(c, t, engine, local);
        }
        "C08" => crate::props2::c08_judge(c, t, engine, local),
        "C14" => {
            if matches!(t.op, Op::SaveCursor | Op::RestoreCursor | Op::Feed(..)) {
                refine_all(c, prop, engine, t, local);
            } else if let Ok((_, post, _)) = t.outcome {
                if post.saves != t.pre.saves {
                    c.violation(mk_violation(prop, engine, t, "stack-changed", "saved-cursor stack changed".into(), serde_json::json!({})));
                }
            }
        }
        _ => {
            refine_all(c, prop, engine, t, local);
        }
    }
}

fn replay_once(v: &Value, c: &Collector) {
    let prop = v["property"].as_str().unwrap_or("").to_string();
    let engine = format!("replay:{}", v["engine"].as_str().unwrap_or(""));
    let columns = v["columns"].as_u64().unwrap_or(0) as u32;
    let lines = v["lines"].as_u64().unwrap_or(0) as u32;
    let script: Vec<Op> = v["script"].as_array().map(|a| a.iter().filter_map(Op::from_json).collect()).unwrap_or_default();
    let op = Op::from_json(&v["op"]);
    let orig_engine = v["engine"].as_str().unwrap_or("");
    if orig_engine.ends_with("two-parsers") || orig_engine == "E3.mode-switch" || v["extra"].get("not_replayable_by_generic_replay").is_some() {
        out!("replay: records of engine {} carry their case in the detail / extra fields (two parsers on one listener, or mode switches between chunks) and have no generic executable form", orig_engine);
        c.count("not_replayable", 1);
        return;
    }
    // parser-side engines
    match (prop.as_str(), &op) {
        ("C03", Some(Op::Feed(chunks, utf8))) => {
            let full = chunks.concat();
            let w = full.strip_suffix(crate::props3::PROBE).unwrap_or(&full).to_string();
            let mut l = E1Local::new();
            crate::props3::c03_word(c, &w, *utf8, &mut l, &engine);
            return;
        }
        ("C11", Some(Op::FeedBytes(chunks, utf8))) if orig_engine != "E3.mode-switch" => {
            let mut l = E3Local::new();
            crate::props3::c11_case(c, chunks, *utf8, &mut l, &engine, "C11");
            return;
        }
        ("C02", Some(op2)) => {
            let start = match build(columns, lines, &script) {
                Ok(s) => s,
                Err((i, m)) => {
                    out!("replay: script step {} panicked: {}", i, m);
                    return;
                }
            };
            match op2 {
                Op::Feed(chunks, utf8) => {
                    let single = screen_after_chars(&start, &[chunks.concat()], *utf8);
                    let base = single.as_ref().ok().map(crate::snapshot::snap_raw);
                    let r = screen_after_chars(&start, chunks, *utf8);
                    crate::props3::c02_verdict(c, &start, &script, op2.clone(), &base, &single, r, "chars");
                }
                Op::FeedBytes(chunks, utf8) => {
                    let single = screen_after_bytes(&start, &[chunks.concat()], *utf8);
                    let base = single.as_ref().ok().map(crate::snapshot::snap_raw);
                    let r = screen_after_bytes(&start, chunks, *utf8);
                    crate::props3::c02_verdict(c, &start, &script, op2.clone(), &base, &single, r, "bytes");
                }
                _ => {}
            }
            return;
        }
        ("C01", Some(Op::FeedBytes(chunks, utf8))) if script.is_empty() => {
            let mut o = HashSet::new();
            crate::props4::stream_case(c, columns, lines, chunks, *utf8, &engine, &mut o);
            return;
        }
        ("C01", Some(Op::Feed(chunks, utf8))) if script.is_empty() => {
            if orig_engine == "E5.stdout-broken" {
                crate::props4::break_stdout();
            }
            let mut o = HashSet::new();
            crate::props4::char_case(c, columns, lines, chunks, *utf8, &engine, &mut o);
            return;
        }
        ("C19", Some(op2)) => {
            // re-derive the expectation from the reference model
            let start = match build(columns, lines, &script) {
                Ok(s) => s,
                Err(_) => return,
            };
            let pre = snap(&start);
            let outcome = run_op(&start, op2);
            let t = Trans { columns, lines, script: &script, pre: &pre, pre_screen: &start, op: op2, outcome: &outcome };
            let mut local = Local::default();
            refine_all(c, "C19", &engine, &t, &mut local);
            return;
        }
        _ => {}
    }
    if orig_engine == "E5.api.max-width" {
        if let (Some(w), Some(k)) = (v["extra"]["max_width"].as_u64(), v["extra"]["edge_op"].as_u64()) {
            crate::props4::max_width_case(c, w as u32, k as usize, &engine);
        }
        return;
    }
    if orig_engine == "E5.api.resize-huge" {
        if let Some(hr) = v["extra"]["huge_resize"].as_array() {
            let (l, w) = (hr[0].as_u64().unwrap_or(1) as u32, hr[1].as_u64().unwrap_or(1) as u32);
            // the recorded script = base script + the steps that succeeded; re-run the whole case from the base
            let n = script.iter().position(|o| matches!(o, Op::Resize(a, b) if *a == Some(l) && *b == Some(w))).unwrap_or(script.len());
            crate::props4::huge_resize_case(c, columns, lines, &script[..n], l, w, &engine);
        }
        return;
    }
    if columns == 0 || lines == 0 {
        out!("replay: this record has no executable form (engine {}); see its detail field", orig_engine);
        c.count("not_replayable", 1);
        return;
    }
    let start: Screen = match build(columns, lines, &script) {
        Ok(s) => s,
        Err((i, m)) => {
            out!("replay: script step {} ({}) panicked: {}", i, script.get(i).map(|o| o.short()).unwrap_or_default(), m);
            c.violation(crate::report::Violation {
                property: prop.clone(),
                engine,
                sig: format!("script|panic:{}", panic_class(&m)),
                columns,
                lines,
                script: script.clone(),
                op: None,
                detail: m,
                extra: serde_json::json!({}),
            });
            return;
        }
    };
    let op = match op {
        Some(o) => o,
        None => {
            out!("replay: record has no operation (state-only record); script executed without panic");
            c.count("not_replayable", 1);
            return;
        }
    };
    let pre = snap(&start);
    let outcome = run_op(&start, &op);
    let t = Trans { columns, lines, script: &script, pre: &pre, pre_screen: &start, op: &op, outcome: &outcome };
    let mut local = Local::default();
    judge_e2(c, &prop, &engine, &t, &mut local);
}

pub fn replay(path: &str) -> i32 {
    let txt = match std::fs::read_to_string(path) {
        Ok(t) => t,
        Err(e) => {
            out!("replay: cannot read {}: {}", path, e);
            return 2;
        }
    };
    let v: Value = match serde_json::from_str(&txt) {
        Ok(v) => v,
        Err(e) => {
            out!("replay: {} is not JSON: {}", path, e);
            return 2;
        }
    };
    let prop = v["property"].as_str().unwrap_or("").to_string();
    out!("replaying {} (property {}, recorded signature {})", path, prop, v["signature"].as_str().unwrap_or(""));
    let c = Collector::new(&prop, "replay");
    // two fresh worker processes; the verdicts must agree
    let c1 = Collector::new(&prop, "replay");
    let c2 = Collector::new(&prop, "replay");
    let crashes1 = fork_map(&c1, 1, Duration::from_secs(600), |_, cc| replay_once(&v, cc));
    let crashes2 = fork_map(&c2, 1, Duration::from_secs(600), |_, cc| replay_once(&v, cc));
    let s1 = c1.signatures();
    let s2 = c2.signatures();
    let _ = c;
    if !crashes1.is_empty() || !crashes2.is_empty() {
        out!("replay: worker ended abnormally: {:?} {:?}", crashes1, crashes2);
        if prop == "C01" {
            out!("VIOLATION property=C01 replay={}", path);
            return 1;
        }
        return 2;
    }
    if s1 != s2 {
        out!("replay: the two runs disagree (nondeterministic=true): {:?} vs {:?}", s1, s2);
    }
    if s1.is_empty() && s2.is_empty() {
        if c1.counter("not_replayable") > 0 {
            out!("replay: this record cannot be re-executed by `check replay` (no verdict); re-run the owning check instead");
            return 2;
        }
        out!("replay: no violation reproduced (the property holds on this case now)");
        return 0;
    }
    for (sig, detail) in c1.details() {
        out!("  still fails: {}\n    {}", sig, detail);
    }
    out!("VIOLATION property={} replay={}", prop, path);
    1
}
