//! Product generator of reachable base states (DESIGN.md 6.2). Every base state
//! is produced by a script of public API calls from `Screen::new`, which is its
//! replay prefix.

use std::collections::HashSet;

use crate::explore::{par_map, Base};
use crate::ops::{apply, build, Op};
use crate::snapshot::full_key;

pub const M_DECAWM_OFF: u8 = 1;
pub const M_IRM: u8 = 2;
pub const M_LNM: u8 = 4;
pub const M_DECOM: u8 = 8;
pub const M_DECSCNM: u8 = 16;

#[derive(Clone, Copy, PartialEq, Eq, Debug)]
pub enum Fill {
    F0,
    F1,
    F2,
    F3,
    F4,
    F5,
    F6,
    /// halves of double-width characters in unusual places: placeholder in column 0 (after
    /// DCH), lead in the last column without placeholder (drawn there, and pushed there by ICH)
    F7,
    /// sparse rows: a short run of contiguous cells at the start of a never-erased row, plus
    /// two lone cells further right (rows stay absent / sparse in the buffer)
    F8,
}

#[derive(Clone, Copy, PartialEq, Eq, Debug)]
pub enum CursorSel {
    All,
    Corners,
    Home,
    /// positions around 0, 127/128, 255/256 and the edges (large geometries)
    Boundary,
}

#[derive(Clone, Copy, PartialEq, Eq, Debug)]
pub enum RegionSel {
    NoRegion,
    Some,
    All,
}

#[derive(Clone, Debug)]
pub struct Spec {
    pub geoms: Vec<(u32, u32)>,
    pub fills: Vec<Fill>,
    pub cursors: CursorSel,
    pub regions: RegionSel,
    pub modesets: Vec<u8>,
    pub renditions: Vec<Vec<u32>>,
    pub stacks: Vec<u8>,
    /// (shift out?, g0 code, g1 code)
    pub charsets: Vec<(bool, &'static str, &'static str)>,
    pub hidden_cursor: bool,
}

pub fn all_modesets() -> Vec<u8> {
    (0..32).collect()
}

/// A pairwise-covering family of 8 subsets of the 5 mode bits (every pair of
/// bits takes all four value combinations).
pub fn pairwise_modesets() -> Vec<u8> {
    vec![0b00000, 0b11111, 0b00111, 0b11001, 0b01010, 0b10100, 0b01101, 0b10011]
}

pub fn marker(i: usize) -> char {
    const M: &[u8] = b"abcdefghijklmnopqrstuvwxyzABCDEFGHIJKLMNOPQRSTUVWXYZ0123456789";
    M[i % M.len()] as char
}

fn cup(y: u32, x: u32) -> Op {
    Op::Cup(Some(y + 1), Some(x + 1))
}

pub fn fill_script(f: Fill, c: u32, l: u32) -> Vec<Op> {
    let mut s = Vec::new();
    let f1 = |s: &mut Vec<Op>| {
        let mut k = 0;
        for y in 0..l {
            s.push(cup(y, 0));
            if y % 2 == 1 {
                s.push(Op::Sgr(vec![32, 45, 4]));
            } else {
                s.push(Op::Sgr(vec![]));
            }
            let mut t = String::new();
            for _ in 0..c {
                t.push(marker(k));
                k += 1;
            }
            s.push(Op::Draw(t));
        }
        s.push(Op::Sgr(vec![]));
    };
    match f {
        Fill::F0 => {}
        Fill::F1 => f1(&mut s),
        Fill::F2 => {
            for y in (0..l).step_by(2) {
                s.push(cup(y, if c > 1 { 1 } else { 0 }));
                s.push(Op::Draw(marker(y as usize).to_string()));
            }
        }
        Fill::F3 => {
            f1(&mut s);
            if c >= 2 {
                // wide character at the left edge of row 0
                s.push(cup(0, 0));
                s.push(Op::Draw("\u{30a2}".into()));
                // wide character ending in the last column of the last row
                s.push(cup(l - 1, c - 2));
                s.push(Op::Sgr(vec![31]));
                s.push(Op::Draw("\u{30a4}".into()));
                s.push(Op::Sgr(vec![]));
            }
            if c >= 3 && l >= 2 {
                // orphan placeholder on row 1: wide at column 0, lead overwritten
                s.push(cup(1, 0));
                s.push(Op::Draw("\u{30a6}".into()));
                s.push(cup(1, 0));
                s.push(Op::Draw("n".into()));
            }
            // emoji presentation sequence (narrow base + U+FE0F in one cell) followed by text
            if c >= 4 && l >= 3 {
                s.push(cup(2, 0));
                s.push(Op::Draw("\u{263a}\u{fe0f}v".into()));
            } else if c >= 3 && l >= 2 {
                s.push(cup(l - 1, 0));
                s.push(Op::Draw("\u{263a}\u{fe0f}".into()));
            }
            // combining sequence
            if c >= 3 {
                s.push(cup(0, c - 1));
                s.push(Op::Draw("e\u{301}".into()));
            } else {
                s.push(cup(0, 0));
                s.push(Op::Draw("e\u{301}".into()));
            }
        }
        Fill::F4 => {
            s.push(Op::Display);
        }
        Fill::F5 => {
            s.push(Op::Sgr(vec![44]));
            s.push(Op::Ed(Some(2)));
            s.push(Op::Sgr(vec![]));
        }
        Fill::F7 => {
            if c >= 2 {
                s.push(cup(0, 0));
                s.push(Op::Sgr(vec![35]));
                s.push(Op::Draw("\u{30a2}b".into()));
                s.push(Op::Sgr(vec![]));
                s.push(cup(0, 0));
                s.push(Op::Dch(Some(1)));
            }
            s.push(cup(l - 1, c - 1));
            s.push(Op::Draw("\u{30a4}".into()));
            // lead intact, its placeholder overwritten by a narrow character
            if l >= 2 && c >= 3 {
                s.push(cup(l - 1, 0));
                s.push(Op::Draw("\u{30a2}".into()));
                s.push(cup(l - 1, 1));
                s.push(Op::Draw("p".into()));
            }
            if l >= 3 && c >= 4 {
                s.push(cup(1, 0));
                s.push(Op::Draw("ab".into()));
                s.push(cup(1, c - 2));
                s.push(Op::Draw("\u{30a6}".into()));
                s.push(cup(1, 1));
                s.push(Op::Ich(Some(1)));
            }
        }
        Fill::F8 => {
            for y in 0..l.min(3) {
                s.push(cup(y, 0));
                s.push(Op::Draw("abcde".chars().take(c.min(5) as usize).collect()));
                if c > 20 {
                    s.push(cup(y, c / 2));
                    s.push(Op::Draw("m".into()));
                    s.push(cup(y, c / 2 + 2));
                    s.push(Op::Draw("n".into()));
                    s.push(cup(y, c - 3));
                    s.push(Op::Draw("xyz".into()));
                }
            }
        }
        Fill::F6 => {
            f1(&mut s);
            // the routes that left hidden cells / rows on the pinned tree
            s.push(cup(l - 1, 0));
            s.push(Op::Index);
            s.push(cup(0, 0));
            s.push(Op::ReverseIndex);
            s.push(cup(0, 0));
            s.push(Op::Ich(Some(1)));
            s.push(cup(l - 1, c - 1));
            s.push(Op::Draw("z".into()));
            s.push(Op::El(Some(1)));
            s.push(cup(0, 0));
            s.push(Op::Draw("q".into()));
        }
    }
    s
}

fn stack_script(depth: u8, c: u32, l: u32) -> Vec<Op> {
    let mut s = Vec::new();
    for i in 0..depth {
        match i % 4 {
            0 => {
                s.push(cup(l - 1, c - 1));
                s.push(Op::Sgr(vec![1, 33]));
                s.push(Op::ShiftOut);
            }
            1 => {
                s.push(cup(0, c / 2));
                s.push(Op::Sgr(vec![0, 7, 48, 5, 100]));
                s.push(Op::DefineCharset("U".into(), "(".into()));
                s.push(Op::ShiftIn);
                s.push(Op::Rm(vec![25], true));
            }
            2 => {
                s.push(cup(l / 2, 0));
                s.push(Op::Sgr(vec![0, 3, 9]));
                s.push(Op::DefineCharset("0".into(), "(".into()));
                s.push(Op::DefineCharset("V".into(), ")".into()));
                s.push(Op::Sm(vec![25], true));
                s.push(Op::Sm(vec![6], true));
            }
            _ => {
                s.push(cup(0, 0));
                s.push(Op::Sgr(vec![0, 4]));
                s.push(Op::Rm(vec![7], true));
            }
        }
        s.push(Op::SaveCursor);
    }
    if depth > 0 {
        // back to defaults so that the other axes start from a known point
        s.push(Op::Sgr(vec![]));
        s.push(Op::ShiftIn);
        s.push(Op::DefineCharset("B".into(), "(".into()));
        s.push(Op::DefineCharset("0".into(), ")".into()));
        s.push(Op::Sm(vec![25], true));
        s.push(Op::Rm(vec![6], true));
        s.push(Op::Sm(vec![7], true));
    }
    s
}

pub fn regions_for(sel: RegionSel, l: u32) -> Vec<Option<(u32, u32)>> {
    let mut v = vec![None];
    match sel {
        RegionSel::NoRegion => {}
        RegionSel::Some => {
            if l >= 3 {
                v.push(Some((0, l - 2)));
                v.push(Some((1, l - 1)));
            } else if l == 2 {
                v.push(Some((0, 1)));
            }
            if l >= 4 {
                v.push(Some((1, l - 2)));
            }
            if l > 258 {
                v.push(Some((254, 257)));
                v.push(Some((255, 256)));
            }
        }
        RegionSel::All => {
            for t in 0..l {
                for b in (t + 1)..l {
                    v.push(Some((t, b)));
                }
            }
        }
    }
    v
}

fn cursors_for(sel: CursorSel, c: u32, l: u32) -> Vec<(u32, u32)> {
    match sel {
        CursorSel::Home => vec![(0, 0)],
        CursorSel::All => {
            let mut v = Vec::new();
            for y in 0..l {
                for x in 0..=c {
                    v.push((x, y));
                }
            }
            v
        }
        CursorSel::Boundary => {
            let pick = |n: u32, pw: bool| -> Vec<u32> {
                let mut v: Vec<u32> = vec![0, 1, 127, 128, 254, 255, 256, 257, n.saturating_sub(2), n.saturating_sub(1)];
                if pw {
                    v.push(n);
                }
                v.retain(|x| *x < n || (pw && *x == n));
                v.sort_unstable();
                v.dedup();
                v
            };
            let mut v = Vec::new();
            for y in pick(l, false) {
                for x in pick(c, true) {
                    v.push((x, y));
                }
            }
            v
        }
        CursorSel::Corners => {
            let mut v = vec![(0, 0), (c - 1, 0), (c, 0), (0, l - 1), (c - 1, l - 1), (c, l - 1), (c / 2, l / 2)];
            if l >= 3 {
                v.push((c, l / 2));
                v.push((0, 1));
            }
            v.sort();
            v.dedup();
            v
        }
    }
}

/// Generate the base states of a spec, deduplicated by full key. Scripts that
/// panic while building are returned separately (index of the failing op, message).
pub fn generate(spec: &Spec) -> (Vec<Base>, Vec<(u32, u32, Vec<Op>, String)>) {
    // outer configurations
    struct Outer {
        c: u32,
        l: u32,
        script: Vec<Op>,
        ms: u8,
    }
    let mut outers = Vec::new();
    for &(c, l) in &spec.geoms {
        for &f in &spec.fills {
            for &st in &spec.stacks {
                for &ms in &spec.modesets {
                    for reg in regions_for(spec.regions, l) {
                        for rend in &spec.renditions {
                            for cs in &spec.charsets {
                                let mut s = fill_script(f, c, l);
                                s.extend(stack_script(st, c, l));
                                if ms & M_DECSCNM != 0 {
                                    s.push(Op::Sm(vec![5], true));
                                }
                                if ms & M_LNM != 0 {
                                    s.push(Op::Sm(vec![20], false));
                                }
                                if ms & M_DECOM != 0 {
                                    s.push(Op::Sm(vec![6], true));
                                }
                                if let Some((t, b)) = reg {
                                    s.push(Op::SetMargins(Some(t + 1), Some(b + 1)));
                                }
                                if !rend.is_empty() {
                                    s.push(Op::Sgr(rend.clone()));
                                }
                                if cs.1 != "B" {
                                    s.push(Op::DefineCharset(cs.1.into(), "(".into()));
                                }
                                if cs.2 != "0" {
                                    s.push(Op::DefineCharset(cs.2.into(), ")".into()));
                                }
                                if cs.0 {
                                    s.push(Op::ShiftOut);
                                }
                                // the cursor's visibility is independent of everything else: every
                                // second configuration gets a hidden cursor (all of them when the
                                // spec asks for it), so that each operation is also judged from
                                // `hidden == true` without doubling the product
                                if spec.hidden_cursor || outers.len() % 2 == 1 {
                                    s.push(Op::Rm(vec![25], true));
                                }
                                outers.push(Outer { c, l, script: s, ms });
                            }
                        }
                    }
                }
            }
        }
    }
    let sel = spec.cursors;
    let results = par_map(outers.len(), |i| {
        let o = &outers[i];
        let mut good: Vec<(u128, Base)> = Vec::new();
        let mut bad = Vec::new();
        let scr = match build(o.c, o.l, &o.script) {
            Ok(s) => s,
            Err((idx, m)) => {
                bad.push((o.c, o.l, o.script[..=idx.min(o.script.len() - 1)].to_vec(), m));
                return (good, bad);
            }
        };
        for (x, y) in cursors_for(sel, o.c, o.l) {
            let mut tail: Vec<Op> = Vec::new();
            if x == o.c {
                tail.push(cup(y, o.c - 1));
                tail.push(Op::Draw("w".into()));
            } else {
                tail.push(cup(y, x));
            }
            if o.ms & M_IRM != 0 {
                tail.push(Op::Sm(vec![4], false));
            }
            if o.ms & M_DECAWM_OFF != 0 {
                tail.push(Op::Rm(vec![7], true));
            }
            let mut s = scr.clone();
            let mut failed = false;
            for (k, op) in tail.iter().enumerate() {
                if let Err(m) = apply(&mut s, op) {
                    let mut sc = o.script.clone();
                    sc.extend(tail[..=k].iter().cloned());
                    bad.push((o.c, o.l, sc, m));
                    failed = true;
                    break;
                }
            }
            if failed {
                continue;
            }
            let mut script = o.script.clone();
            script.extend(tail);
            good.push((full_key(&s), Base { columns: o.c, lines: o.l, script, screen: s }));
        }
        (good, bad)
    });
    let mut seen: HashSet<u128> = HashSet::new();
    let mut bases = Vec::new();
    let mut bads = Vec::new();
    for (good, bad) in results {
        for (k, b) in good {
            if seen.insert(k) {
                bases.push(b);
            }
        }
        bads.extend(bad);
    }
    (bases, bads)
}

pub fn default_renditions() -> Vec<Vec<u32>> {
    // the second one sets every flag and both colours (an operation that copies the rendition
    // field by field must not forget one)
    vec![vec![], vec![1, 3, 4, 5, 7, 9, 31, 44], vec![27]]
}

pub fn default_charsets() -> Vec<(bool, &'static str, &'static str)> {
    vec![(false, "B", "0")]
}
