//! Abstraction function alpha(Screen) -> Snap (observable view) and the full
//! state key K(Screen) (observable view + representation residue).
//! See DESIGN.md section 4.

use std::collections::hash_map::DefaultHasher;
use std::fmt;
use std::hash::{Hash, Hasher};

use memterm::charset::{IBMPC_MAP, LAT1_MAP, VAX42_MAP, VT100_MAP};
use memterm::screen::{CharOpts, Charset, Cursor, Savepoint, Screen};
use unicode_normalization::UnicodeNormalization;

/// Small-string: inline up to 22 bytes, heap beyond. Cell texts and colour
/// names are nearly always short; this keeps snapshots allocation-free.
#[derive(Clone)]
pub enum SStr {
    I(u8, [u8; 22]),
    H(Box<str>),
}

impl SStr {
    pub fn new(s: &str) -> SStr {
        if s.len() <= 22 {
            let mut b = [0u8; 22];
            b[..s.len()].copy_from_slice(s.as_bytes());
            SStr::I(s.len() as u8, b)
        } else {
            SStr::H(s.into())
        }
    }
    pub fn as_str(&self) -> &str {
        match self {
            SStr::I(n, b) => unsafe { std::str::from_utf8_unchecked(&b[..*n as usize]) },
            SStr::H(s) => s,
        }
    }
}
impl PartialEq for SStr {
    fn eq(&self, o: &SStr) -> bool {
        self.as_str() == o.as_str()
    }
}
impl Eq for SStr {}
impl Hash for SStr {
    fn hash<H: Hasher>(&self, h: &mut H) {
        self.as_str().hash(h)
    }
}
impl fmt::Debug for SStr {
    fn fmt(&self, f: &mut fmt::Formatter<'_>) -> fmt::Result {
        write!(f, "{:?}", self.as_str())
    }
}
impl From<&str> for SStr {
    fn from(s: &str) -> SStr {
        SStr::new(s)
    }
}

pub const F_BOLD: u8 = 1;
pub const F_ITALICS: u8 = 2;
pub const F_UNDERSCORE: u8 = 4;
pub const F_STRIKE: u8 = 8;
pub const F_REVERSE: u8 = 16;
pub const F_BLINK: u8 = 32;

#[derive(Clone, PartialEq, Eq, Hash)]
pub struct Cell {
    pub data: SStr,
    pub fg: SStr,
    pub bg: SStr,
    pub flags: u8,
}

impl fmt::Debug for Cell {
    fn fmt(&self, f: &mut fmt::Formatter<'_>) -> fmt::Result {
        write!(f, "{:?}", self.data.as_str())?;
        if self.fg.as_str() != "default" || self.bg.as_str() != "default" || self.flags != 0 {
            write!(f, "[{}/{}", self.fg.as_str(), self.bg.as_str())?;
            for (b, n) in [
                (F_BOLD, "b"),
                (F_ITALICS, "i"),
                (F_UNDERSCORE, "u"),
                (F_STRIKE, "s"),
                (F_REVERSE, "r"),
                (F_BLINK, "k"),
            ] {
                if self.flags & b != 0 {
                    write!(f, " {}", n)?;
                }
            }
            write!(f, "]")?;
        }
        Ok(())
    }
}

impl Cell {
    pub fn blank(reverse: bool) -> Cell {
        Cell {
            data: SStr::new(" "),
            fg: SStr::new("default"),
            bg: SStr::new("default"),
            flags: if reverse { F_REVERSE } else { 0 },
        }
    }
    pub fn with_data(&self, d: &str) -> Cell {
        Cell { data: SStr::new(d), fg: self.fg.clone(), bg: self.bg.clone(), flags: self.flags }
    }
    /// Like from_opts but WITHOUT normalising the text (for implementation-vs-implementation
    /// differentials, where the stored string itself is the observable).
    pub fn from_opts_raw(c: &CharOpts) -> Cell {
        let mut cell = Cell::from_opts(&CharOpts { data: String::new(), ..c.clone() });
        cell.data = SStr::new(&c.data);
        cell
    }
    pub fn from_opts(c: &CharOpts) -> Cell {
        let mut flags = 0;
        if c.bold {
            flags |= F_BOLD
        }
        if c.italics {
            flags |= F_ITALICS
        }
        if c.underscore {
            flags |= F_UNDERSCORE
        }
        if c.strikethrough {
            flags |= F_STRIKE
        }
        if c.reverse {
            flags |= F_REVERSE
        }
        if c.blink {
            flags |= F_BLINK
        }
        // cell text compared after NFC normalisation (DESIGN 4)
        let data = if c.data.is_ascii() {
            SStr::new(&c.data)
        } else {
            let n: String = c.data.nfc().collect();
            SStr::new(&n)
        };
        Cell { data, fg: SStr::new(&c.fg), bg: SStr::new(&c.bg), flags }
    }
    /// Same rendition (everything but text)?
    pub fn same_rendition(&self, o: &Cell) -> bool {
        self.fg == o.fg && self.bg == o.bg && self.flags == o.flags
    }
}

#[derive(Clone, PartialEq, Eq, Hash, Debug)]
pub struct CursorS {
    pub x: u32,
    pub y: u32,
    pub attr: Cell,
    pub hidden: bool,
}

impl CursorS {
    pub fn from(c: &Cursor) -> CursorS {
        CursorS { x: c.x, y: c.y, attr: Cell::from_opts(&c.attr), hidden: c.hidden }
    }
}

/// Identity of a 256-entry translation table.
#[derive(Clone, PartialEq, Eq, Hash, Debug)]
pub enum CsId {
    Lat1,
    Vt100,
    Ibmpc,
    Vax42,
    Other(Vec<char>),
}

impl CsId {
    pub fn from(t: &[char; 256]) -> CsId {
        if t == &LAT1_MAP {
            CsId::Lat1
        } else if t == &VT100_MAP {
            CsId::Vt100
        } else if t == &IBMPC_MAP {
            CsId::Ibmpc
        } else if t == &VAX42_MAP {
            CsId::Vax42
        } else {
            CsId::Other(t.to_vec())
        }
    }
}

#[derive(Clone, PartialEq, Eq, Hash, Debug)]
pub struct SaveS {
    pub cursor: CursorS,
    pub g0: CsId,
    pub g1: CsId,
    pub charset: u8,
    pub origin: bool,
    pub wrap: bool,
}

impl SaveS {
    pub fn from(s: &Savepoint) -> SaveS {
        SaveS {
            cursor: CursorS::from(&s.cursor),
            g0: CsId::from(&s.g0_charset),
            g1: CsId::from(&s.g1_charset),
            charset: cs_num(s.charset),
            origin: s.origin,
            wrap: s.wrap,
        }
    }
}

pub fn cs_num(c: Charset) -> u8 {
    match c {
        Charset::G0 => 0,
        Charset::G1 => 1,
    }
}

/// Observable view of a screen.
#[derive(Clone, PartialEq, Eq, Hash, Debug)]
pub struct Snap {
    pub lines: u32,
    pub columns: u32,
    pub grid: Vec<Vec<Cell>>,
    pub cursor: CursorS,
    pub margins: Option<(u32, u32)>,
    pub modes: Vec<u32>,
    pub tabstops: Vec<u32>,
    pub title: String,
    pub icon: String,
    pub charset: u8,
    pub g0: CsId,
    pub g1: CsId,
    pub saves: Vec<SaveS>,
    pub saved_columns: Option<u32>,
    pub dirty: Vec<u32>,
}

pub const DECSCNM: u32 = 5 << 5;

pub fn snap(s: &Screen) -> Snap {
    snap_with(s, false)
}

/// Observable view with the cell texts exactly as stored (no NFC normalisation).
pub fn snap_raw(s: &Screen) -> Snap {
    snap_with(s, true)
}

fn snap_with(s: &Screen, raw: bool) -> Snap {
    let reverse = s.mode.contains(&DECSCNM);
    let blank = Cell::blank(reverse);
    let mut grid = Vec::with_capacity(s.lines as usize);
    for y in 0..s.lines {
        let mut row = Vec::with_capacity(s.columns as usize);
        match s.buffer.get(&y) {
            None => {
                for _ in 0..s.columns {
                    row.push(blank.clone());
                }
            }
            Some(line) => {
                for x in 0..s.columns {
                    match line.get(&x) {
                        None => row.push(blank.clone()),
                        Some(c) => row.push(if raw { Cell::from_opts_raw(c) } else { Cell::from_opts(c) }),
                    }
                }
            }
        }
        grid.push(row);
    }
    let mut modes: Vec<u32> = s.mode.iter().cloned().collect();
    modes.sort_unstable();
    let mut tabstops: Vec<u32> = s.tabstops.iter().cloned().collect();
    tabstops.sort_unstable();
    let mut dirty: Vec<u32> = s.dirty.iter().cloned().collect();
    dirty.sort_unstable();
    Snap {
        lines: s.lines,
        columns: s.columns,
        grid,
        cursor: CursorS::from(&s.cursor),
        margins: s.margins.map(|m| (m.top, m.bottom)),
        modes,
        tabstops,
        title: s.title.clone(),
        icon: s.icon_name.clone(),
        charset: cs_num(s.charset),
        g0: CsId::from(&s.g0_charset),
        g1: CsId::from(&s.g1_charset),
        saves: s.savepoints.iter().map(SaveS::from).collect(),
        saved_columns: s.saved_columns,
        dirty,
    }
}

impl Snap {
    pub fn has_mode(&self, m: u32) -> bool {
        self.modes.binary_search(&m).is_ok()
    }
    pub fn blank(&self) -> Cell {
        Cell::blank(self.has_mode(DECSCNM))
    }
    pub fn row_text(&self, y: usize) -> String {
        self.grid[y].iter().map(|c| c.data.as_str()).collect()
    }
    pub fn grid_text(&self) -> Vec<String> {
        (0..self.grid.len()).map(|y| self.row_text(y)).collect()
    }
}

fn hash_opts<H: Hasher>(c: &CharOpts, h: &mut H) {
    c.data.hash(h);
    c.fg.hash(h);
    c.bg.hash(h);
    (c.bold, c.italics, c.underscore, c.strikethrough, c.reverse, c.blink).hash(h);
}

fn hash_cursor<H: Hasher>(c: &Cursor, h: &mut H) {
    (c.x, c.y, c.hidden).hash(h);
    hash_opts(&c.attr, h);
}

fn hash_full<H: Hasher>(s: &Screen, h: &mut H) {
    (s.lines, s.columns).hash(h);
    // raw buffer, canonical order, keeps absent/materialised apart and covers hidden cells
    let mut ys: Vec<&u32> = s.buffer.keys().collect();
    ys.sort_unstable();
    ys.len().hash(h);
    for y in ys {
        y.hash(h);
        let line = &s.buffer[y];
        let mut xs: Vec<&u32> = line.keys().collect();
        xs.sort_unstable();
        xs.len().hash(h);
        for x in xs {
            x.hash(h);
            hash_opts(&line[x], h);
        }
    }
    hash_cursor(&s.cursor, h);
    s.margins.map(|m| (m.top, m.bottom)).hash(h);
    let mut v: Vec<u32> = s.mode.iter().cloned().collect();
    v.sort_unstable();
    v.hash(h);
    let mut v: Vec<u32> = s.tabstops.iter().cloned().collect();
    v.sort_unstable();
    v.hash(h);
    let mut v: Vec<u32> = s.dirty.iter().cloned().collect();
    v.sort_unstable();
    v.hash(h);
    s.title.hash(h);
    s.icon_name.hash(h);
    cs_num(s.charset).hash(h);
    s.g0_charset.hash(h);
    s.g1_charset.hash(h);
    s.saved_columns.hash(h);
    s.savepoints.len().hash(h);
    for sp in &s.savepoints {
        hash_cursor(&sp.cursor, h);
        sp.g0_charset.hash(h);
        sp.g1_charset.hash(h);
        cs_num(sp.charset).hash(h);
        (sp.origin, sp.wrap).hash(h);
    }
}

/// Full state key K(s): 128-bit hash of the complete canonical form.
pub fn full_key(s: &Screen) -> u128 {
    let mut h1 = DefaultHasher::new();
    hash_full(s, &mut h1);
    let mut h2 = DefaultHasher::new();
    0x9e3779b97f4a7c15u64.hash(&mut h2);
    hash_full(s, &mut h2);
    ((h1.finish() as u128) << 64) | (h2.finish() as u128)
}

/// Hash of the observable view (used to count distinct outcomes).
pub fn snap_key(s: &Snap) -> u64 {
    let mut h = DefaultHasher::new();
    s.hash(&mut h);
    h.finish()
}

/// Representation residue statistics: (absent rows, hidden cells beyond the grid).
pub fn residue(s: &Screen) -> (u32, u32) {
    let mut absent = 0;
    for y in 0..s.lines {
        if !s.buffer.contains_key(&y) {
            absent += 1;
        }
    }
    let mut hidden = 0;
    for (y, line) in &s.buffer {
        if *y >= s.lines {
            hidden += line.len() as u32 + 1;
        } else {
            hidden += line.keys().filter(|x| **x >= s.columns).count() as u32;
        }
    }
    (absent, hidden)
}

/// Well-formedness W(s) (C09). Returns the list of violated clauses.
pub fn wellformed(s: &Screen) -> Vec<String> {
    let mut v = Vec::new();
    if s.lines < 1 || s.columns < 1 {
        v.push(format!("geometry {}x{}", s.columns, s.lines));
        return v;
    }
    if s.cursor.y >= s.lines {
        v.push(format!("cursor.y={} >= lines={}", s.cursor.y, s.lines));
    }
    if s.cursor.x > s.columns {
        v.push(format!("cursor.x={} > columns={}", s.cursor.x, s.columns));
    }
    if let Some(m) = s.margins {
        if !(m.top < m.bottom && m.bottom <= s.lines - 1) {
            v.push(format!("margins ({},{}) lines={}", m.top, m.bottom, s.lines));
        }
    }
    let mut bad: Vec<u32> = s.dirty.iter().cloned().filter(|d| *d >= s.lines).collect();
    if !bad.is_empty() {
        bad.sort_unstable();
        v.push(format!("dirty contains {:?} with lines={}", bad, s.lines));
    }
    v
}

pub fn legal_colour(c: &str) -> bool {
    const NAMES: [&str; 17] = [
        "default",
        "black",
        "red",
        "green",
        "brown",
        "blue",
        "magenta",
        "cyan",
        "white",
        "brightblack",
        "brightred",
        "brightgreen",
        "brightbrown",
        "brightblue",
        "brightmagenta",
        "brightcyan",
        "brightwhite",
    ];
    if NAMES.contains(&c) {
        return true;
    }
    c.len() == 6 && c.bytes().all(|b| b.is_ascii_hexdigit())
}

/// Colour legality over the visible grid and the cursor rendition.
pub fn colours_legal(s: &Snap) -> Vec<String> {
    let mut v = Vec::new();
    for (y, row) in s.grid.iter().enumerate() {
        for (x, c) in row.iter().enumerate() {
            if !legal_colour(c.fg.as_str()) || !legal_colour(c.bg.as_str()) {
                v.push(format!("cell ({},{}) colour {}/{}", x, y, c.fg.as_str(), c.bg.as_str()));
            }
        }
    }
    v
}

/// Maintenance alarm (`./check selftest`): destructuring WITHOUT `..` fails to
/// compile when a field is added to the subject's state types that the state
/// key / snapshot does not cover yet. Only compiled for the harness's own tests,
/// so the registered checks keep building.
#[cfg(test)]
mod fieldcheck {
    use memterm::screen::{CharOpts, Cursor, Margins, Savepoint, Screen};

    #[allow(dead_code)]
    fn screen_fields(s: Screen) {
        let Screen {
            savepoints: _,
            columns: _,
            lines: _,
            dirty: _,
            margins: _,
            buffer: _,
            mode: _,
            title: _,
            icon_name: _,
            charset: _,
            g0_charset: _,
            g1_charset: _,
            tabstops: _,
            cursor: _,
            saved_columns: _,
        } = s;
    }
    #[allow(dead_code)]
    fn other_fields(sp: Savepoint, c: Cursor, o: CharOpts, m: Margins) {
        let Savepoint { cursor: _, g0_charset: _, g1_charset: _, charset: _, origin: _, wrap: _ } = sp;
        let Cursor { x: _, y: _, attr: _, hidden: _ } = c;
        let CharOpts { data: _, fg: _, bg: _, bold: _, italics: _, underscore: _, strikethrough: _, reverse: _, blink: _ } = o;
        let Margins { top: _, bottom: _ } = m;
    }

    #[test]
    fn key_distinguishes_representation() {
        use super::*;
        use memterm::parser_listener::ParserListener;
        let a = Screen::new(3, 2);
        let mut b = Screen::new(3, 2);
        b.display();
        assert_ne!(full_key(&a), full_key(&b), "absent vs materialised rows must have different keys");
        b.dirty = a.dirty.clone();
        assert_eq!(snap(&a), snap(&b), "but the same observable view");
    }
}
