//! Oracles evaluated on transitions (DESIGN.md 6.2): refinement against the
//! reference model, well-formedness, dirty rule, display purity.

use serde_json::json;

use crate::explore::{Local, Trans};
use crate::ops::{Op, P};
use crate::refscreen::{compare, Comp, Model, ALL_COMPS};
use crate::report::{Collector, Violation};
use crate::snapshot::{colours_legal, wellformed, Snap};

pub fn owner(op: &Op) -> Option<&'static str> {
    use Op::*;
    Some(match op {
        Draw(_) => "C04",
        Cuu(_) | Cud(_) | Cuf(_) | Cub(_) | Cnl(_) | Cpl(_) | Cha(_) | Cup(..) | Vpa(_) | Backspace
        | CarriageReturn => "C05",
        Index | Linefeed | ReverseIndex | Il(_) | Dl(_) | SetMargins(..) => "C06",
        Ed(_) | El(_) | Ech(_) => "C07",
        Sgr(_) => "C08",
        Display => "C10",
        Sm(..) | Rm(..) => "C12",
        Ich(_) | Dch(_) => "C13",
        SaveCursor | RestoreCursor => "C14",
        Reset => "C15",
        Resize(..) => "C16",
        Tab | SetTabStop | Tbc(_) => "C18",
        SetTitle(_) | SetIconName(_) => "C19",
        DefineCharset(..) | ShiftOut | ShiftIn => "C20",
        Bell | Da(_) | AlignmentDisplay | ClearDirty | Feed(..) | FeedBytes(..) => return None,
    })
}

fn pclass(p: &P) -> &'static str {
    match p {
        None => "absent",
        Some(0) => "0",
        Some(1) => "1",
        Some(9999) => "9999",
        Some(_) => "n",
    }
}

/// Parameter class of an operation, part of the violation signature.
pub fn param_class(op: &Op) -> String {
    use Op::*;
    match op {
        Ich(p) | Cuu(p) | Cud(p) | Cuf(p) | Cub(p) | Cnl(p) | Cpl(p) | Cha(p) | Ed(p) | El(p) | Il(p)
        | Dl(p) | Dch(p) | Ech(p) | Da(p) | Vpa(p) | Tbc(p) => pclass(p).to_string(),
        Cup(a, b) | SetMargins(a, b) => format!("{},{}", pclass(a), pclass(b)),
        Resize(..) => String::new(),
        Sm(v, p) | Rm(v, p) => format!("{}{:?}", if *p { "?" } else { "" }, v),
        Sgr(v) => {
            if v.len() <= 2 {
                format!("{:?}", v)
            } else {
                format!("[{},{},..]", v[0], v[1])
            }
        }
        Draw(t) => crate::ops::esc(&t.chars().take(3).collect::<String>()),
        _ => String::new(),
    }
}

pub fn panic_class(msg: &str) -> String {
    // message without the source location
    let m = msg.split(" @ ").next().unwrap_or(msg);
    let m: String = m.chars().take(60).collect();
    m
}

pub fn pre_class(pre: &Snap) -> String {
    let mut s = String::new();
    if pre.cursor.x == pre.columns {
        s.push_str("pw");
    }
    if pre.margins.is_some() {
        s.push_str(" reg");
    }
    s
}

pub fn mk_violation(
    prop: &str,
    engine: &str,
    t: &Trans,
    outcome_class: &str,
    detail: String,
    extra: serde_json::Value,
) -> Violation {
    Violation {
        property: prop.to_string(),
        engine: engine.to_string(),
        sig: format!("{}|{}|{}", t.op.name(), outcome_class, param_class(t.op)).trim_end_matches('|').to_string(),
        columns: t.columns,
        lines: t.lines,
        script: t.script.to_vec(),
        op: Some(t.op.clone()),
        detail: format!("{} [pre-state: cursor ({},{}) margins {:?} {}]", detail, t.pre.cursor.x, t.pre.cursor.y, t.pre.margins, pre_class(t.pre)),
        extra,
    }
}

/// Refinement judge: panic => violation; otherwise model(alpha(pre), op) must
/// equal alpha(post) on `comps` (modulo declared don't-cares); post must be
/// well-formed. Returns true if the post-state may be expanded.
pub fn refine(c: &Collector, prop: &str, engine: &str, t: &Trans, comps: &[Comp], local: &mut Local) -> bool {
    match t.outcome {
        Err(msg) => {
            local.count("panics");
            c.violation(mk_violation(
                prop,
                engine,
                t,
                &format!("panic:{}", panic_class(msg)),
                format!("panicked: {}", msg),
                json!({}),
            ));
            false
        }
        Ok((post_screen, post, _)) => {
            local.count("oracle_checks");
            let mut m = Model::new(t.pre);
            m.apply(t.op);
            if m.scrolled {
                local.count("model_scrolled");
            }
            if m.wrapped {
                local.count("model_wrapped");
            }
            if m.dc.all {
                local.count("dont_care_all");
            }
            if t.pre.cursor.x == t.pre.columns {
                local.count("pre_pending_wrap");
            }
            if t.pre.margins.is_some() {
                local.count("pre_region");
            }
            if m.s != *t.pre {
                local.count("model_changed_state");
            }
            let diffs = compare(&m.s, post, &m.dc, comps);
            let mut ok = true;
            if let Some((comp, d)) = diffs.first() {
                ok = false;
                c.violation(mk_violation(
                    prop,
                    engine,
                    t,
                    &format!("mismatch:{:?}", comp),
                    d.clone(),
                    json!({"all_mismatches": diffs.iter().map(|(c, d)| format!("{:?}: {}", c, d)).collect::<Vec<_>>(),
                           "dont_care": m.dc.why}),
                ));
            }
            if m.all_dirty && !m.dc.all && (post.lines, post.columns) == (m.s.lines, m.s.columns) {
                local.count("reverse_video_switches");
                if let Some(y) = (0..post.lines).find(|y| !post.dirty.contains(y)) {
                    ok = false;
                    c.violation(mk_violation(
                        prop,
                        engine,
                        t,
                        "dirty-not-all",
                        format!("a reverse-video switch marks all rows dirty; row {} is missing from dirty = {:?}", y, post.dirty),
                        json!({}),
                    ));
                }
            }
            let w = wellformed(post_screen);
            if !w.is_empty() {
                ok = false;
                local.count("illformed_post");
                c.violation(mk_violation(
                    prop,
                    engine,
                    t,
                    &format!("invariant:{}", w[0].split(|ch: char| ch.is_ascii_digit() || ch == '=').next().unwrap_or("").trim()),
                    format!("post-state is not well-formed: {}", w.join("; ")),
                    json!({}),
                ));
            }
            ok
        }
    }
}

pub fn refine_all(c: &Collector, prop: &str, engine: &str, t: &Trans, local: &mut Local) -> bool {
    refine(c, prop, engine, t, &ALL_COMPS, local)
}

/// C09 invariant on a post-state (used on every transition of the C09 campaigns).
pub fn invariant(c: &Collector, prop: &str, engine: &str, t: &Trans, local: &mut Local) -> bool {
    match t.outcome {
        Err(_) => false,
        Ok((post_screen, post, disp)) => {
            local.count("oracle_checks");
            let mut problems = wellformed(post_screen);
            problems.extend(colours_legal(post));
            if let Some(d) = disp {
                if d.len() as u32 != post.lines {
                    problems.push(format!("display() returned {} rows, lines={}", d.len(), post.lines));
                }
            }
            if problems.is_empty() {
                true
            } else {
                local.count("illformed_post");
                let class = problems[0]
                    .split(|ch: char| ch.is_ascii_digit() || ch == '=')
                    .next()
                    .unwrap_or("")
                    .trim()
                    .to_string();
                c.violation(mk_violation(
                    prop,
                    engine,
                    t,
                    &format!("invariant:{}", class),
                    format!("post-state is not well-formed: {}", problems.join("; ")),
                    json!({}),
                ));
                false
            }
        }
    }
}

/// P(g): parameter domain {absent, 0, 1, .., max(C,L)+2, 9999}; on large geometries
/// (beyond 24 columns/lines) the boundary-value domain around powers of two and the edges.
pub fn pdom(c: u32, l: u32) -> Vec<P> {
    let mut v = vec![None, Some(0)];
    if c.max(l) <= 24 {
        for i in 1..=(c.max(l) + 2) {
            v.push(Some(i));
        }
        v.push(Some(9999));
    } else {
        let mut b: Vec<u32> = vec![1, 2, 3, 127, 128, 129, 254, 255, 256, 257, 258, 1000, 4095, 4096, 9999];
        for n in [c, l] {
            for d in [n.saturating_sub(2), n.saturating_sub(1), n, n + 1, n + 2] {
                b.push(d);
            }
        }
        b.retain(|x| *x >= 1);
        b.sort_unstable();
        b.dedup();
        v.extend(b.into_iter().map(Some));
    }
    v
}

/// sizes to resize to: every size 1..=n+2 on small screens, boundary values on large ones
pub fn size_dom(n: u32) -> Vec<u32> {
    if n <= 24 {
        (1..=(n + 2)).collect()
    } else {
        let mut b: Vec<u32> = vec![1, 2, 3, 255, 256, 257, n.saturating_sub(1), n, n + 1];
        b.retain(|x| *x >= 1);
        b.sort_unstable();
        b.dedup();
        b
    }
}

/// May the post-state of a transition that this check does not judge be expanded?
/// (no panic, and well-formed: ill-formed states are reported by C09 and by the
/// property owning the transition that produced them, and are never expanded)
pub fn expand_ok(t: &Trans) -> bool {
    match t.outcome {
        // very wide states (after DECCOLM) are judged but not expanded: they cost two orders of
        // magnitude more memory per state and every operation treats columns uniformly
        Ok((s, _, _)) => wellformed(s).is_empty() && s.columns <= 16,
        Err(_) => false,
    }
}

/// Follow-up to an editing transition: widen / lengthen the post-state and demand that the cells
/// which appear are blank (nothing the operation wrote or left outside the visible area may come
/// back). Reported as a transition `script + [op]` --Resize--> .
pub fn then_grow(c: &Collector, prop: &str, engine: &str, t: &Trans, local: &mut Local) {
    if matches!(t.op, Op::Feed(..) | Op::FeedBytes(..) | Op::Resize(..)) {
        return;
    }
    if let Ok((post_screen, post, _)) = t.outcome {
        let grow = Op::Resize(Some(post.lines + 1), Some(post.columns + 2));
        let out = crate::explore::run_op(post_screen, &grow);
        let mut script = t.script.to_vec();
        script.push(t.op.clone());
        let t2 = Trans { columns: t.columns, lines: t.lines, script: &script, pre: post, pre_screen: post_screen, op: &grow, outcome: &out };
        local.count("then_grow");
        refine(c, prop, engine, &t2, &[Comp::Grid, Comp::Geometry], local);
    }
}
