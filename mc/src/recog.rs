//! Reference escape-sequence recogniser: an explicit finite-state machine
//! written from C03's statement (DESIGN.md 6.1). Output vocabulary = `Op`
//! (the ParserListener methods).

use crate::ops::Op;

#[derive(Clone, Debug, PartialEq)]
pub enum St {
    Ground,
    Esc,
    EscHash,
    EscPercent,
    EscCharset(char),
    Csi { params: Vec<u32>, cur: Option<u32>, private: bool },
    CsiDollar,
    /// directly after the OSC introducer
    OscStart,
    OscP(u8),
    /// `buf` = everything since the introducer (command number, `;`, text)
    OscStr { buf: String, esc_pending: bool },
}

pub struct Recog {
    pub st: St,
    pub utf8: bool,
    pub out: Vec<Op>,
    /// set when a D8 (declared don't-care) OSC shape was seen whose whole interpretation is open:
    /// an ESC inside the string followed by ESC / BEL / U+009C, or OSC P with a non-hexadecimal digit
    pub d8: bool,
    /// an OSC string without any `;`: what the title / icon name become is open (D8), everything
    /// else -- where the string ends, that nothing reaches the grid -- is defined
    pub d8_labels: bool,
    /// D15: an ESC / U+009B / U+009D arrived inside an unfinished ESC or CSI sequence. The statement
    /// is silent: consuming it as an unknown final (pyte) and restarting a sequence (ECMA-48) are
    /// both accepted; `esc_restarts` says which of the two this instance implements.
    pub restart_seen: bool,
    pub esc_restarts: bool,
    /// CAN / SUB aborted a CSI (D10: whether that character is handed to draw() is not specified;
    /// it matters only under a charset that maps 0x18 / 0x1a to a printable glyph)
    pub d10_abort: bool,
    /// indices into `out` of the (unmerged) text events holding an aborting CAN / SUB
    pub d10_events: Vec<usize>,
    no_merge: bool,
}

fn p0(v: &[u32], i: usize) -> Option<u32> {
    v.get(i).cloned()
}

impl Recog {
    pub fn new(utf8: bool) -> Recog {
        Recog { st: St::Ground, utf8, out: Vec::new(), d8: false, d8_labels: false, restart_seen: false, esc_restarts: false, d10_abort: false, d10_events: Vec::new(), no_merge: false }
    }

    fn text(&mut self, c: char) {
        if !self.no_merge {
            if let Some(Op::Draw(s)) = self.out.last_mut() {
                s.push(c);
                return;
            }
        }
        self.no_merge = false;
        self.out.push(Op::Draw(c.to_string()));
    }

    fn c0(&mut self, c: char) -> bool {
        // controls executed both in ground state and inside a CSI
        let op = match c {
            '\x07' => Op::Bell,
            '\x08' => Op::Backspace,
            '\x09' => Op::Tab,
            '\x0a' | '\x0b' | '\x0c' => Op::Linefeed,
            '\x0d' => Op::CarriageReturn,
            _ => return false,
        };
        self.out.push(op);
        true
    }

    fn csi_dispatch(&mut self, f: char, v: &[u32], private: bool) {
        let a = p0(v, 0);
        let op = match f {
            '@' => Op::Ich(a),
            'A' => Op::Cuu(a),
            'B' => Op::Cud(a),
            'C' => Op::Cuf(a),
            'D' => Op::Cub(a),
            'E' => Op::Cnl(a),
            'F' => Op::Cpl(a),
            'G' => Op::Cha(a),
            'H' | 'f' => Op::Cup(a, p0(v, 1)),
            'J' => Op::Ed(a),
            'K' => Op::El(a),
            'L' => Op::Il(a),
            'M' => Op::Dl(a),
            'P' => Op::Dch(a),
            'X' => Op::Ech(a),
            'a' => Op::Cuf(a),
            'c' => Op::Da(a),
            'd' => Op::Vpa(a),
            'e' => Op::Cud(a),
            'g' => Op::Tbc(a),
            'h' => Op::Sm(v.to_vec(), private),
            'l' => Op::Rm(v.to_vec(), private),
            'm' => Op::Sgr(v.to_vec()),
            'r' => Op::SetMargins(a, p0(v, 1)),
            _ => return,
        };
        self.out.push(op);
    }

    pub fn step(&mut self, c: char) {
        let st = std::mem::replace(&mut self.st, St::Ground);
        if matches!(st, St::Esc | St::EscHash | St::EscPercent | St::EscCharset(_) | St::Csi { .. } | St::CsiDollar) && (c == '\x1b' || c == '\u{9b}' || c == '\u{9d}') {
            self.restart_seen = true;
            if self.esc_restarts {
                self.st = match c {
                    '\x1b' => St::Esc,
                    '\u{9b}' => St::Csi { params: vec![], cur: None, private: false },
                    _ => St::OscStart,
                };
                return;
            }
        }
        self.st = match st {
            St::Ground => match c {
                '\x1b' => St::Esc,
                '\u{9b}' => St::Csi { params: vec![], cur: None, private: false },
                '\u{9d}' => St::OscStart,
                '\x0e' | '\x0f' => {
                    if !self.utf8 {
                        self.out.push(if c == '\x0e' { Op::ShiftOut } else { Op::ShiftIn });
                    }
                    St::Ground
                }
                _ => {
                    if !self.c0(c) {
                        self.text(c);
                    }
                    St::Ground
                }
            },
            St::Esc => match c {
                '[' => St::Csi { params: vec![], cur: None, private: false },
                ']' => St::OscStart,
                '#' => St::EscHash,
                '%' => St::EscPercent,
                '(' | ')' => St::EscCharset(c),
                _ => {
                    match c {
                        'c' => self.out.push(Op::Reset),
                        'D' => self.out.push(Op::Index),
                        'E' => self.out.push(Op::Linefeed),
                        'M' => self.out.push(Op::ReverseIndex),
                        'H' => self.out.push(Op::SetTabStop),
                        '7' => self.out.push(Op::SaveCursor),
                        '8' => self.out.push(Op::RestoreCursor),
                        _ => {}
                    }
                    St::Ground
                }
            },
            St::EscHash => {
                if c == '8' {
                    self.out.push(Op::AlignmentDisplay);
                }
                St::Ground
            }
            St::EscPercent => St::Ground,
            St::EscCharset(g) => {
                if !self.utf8 {
                    self.out.push(Op::DefineCharset(c.to_string(), g.to_string()));
                }
                St::Ground
            }
            St::Csi { mut params, mut cur, mut private } => {
                if c.is_ascii_digit() {
                    let d = c as u32 - '0' as u32;
                    cur = Some(u32::min(cur.unwrap_or(0).saturating_mul(10).saturating_add(d), 9999));
                    St::Csi { params, cur, private }
                } else if c == ';' {
                    params.push(cur.unwrap_or(0));
                    St::Csi { params, cur: None, private }
                } else if c == '?' {
                    private = true;
                    St::Csi { params, cur, private }
                } else if c == ' ' || c == '>' {
                    St::Csi { params, cur, private }
                } else if c == '\x18' || c == '\x1a' {
                    // CAN / SUB abort the sequence. The character itself is handed to
                    // draw() by the documented parser (it never prints): D10.
                    // its own event, never merged with the text around it
                    self.no_merge = true;
                    self.text(c);
                    self.no_merge = true;
                    self.d10_abort = true;
                    self.d10_events.push(self.out.len() - 1);
                    St::Ground
                } else if c == '$' {
                    St::CsiDollar
                } else if self.c0(c) {
                    St::Csi { params, cur, private }
                } else {
                    params.push(cur.unwrap_or(0));
                    self.csi_dispatch(c, &params, private);
                    St::Ground
                }
            }
            St::CsiDollar => St::Ground,
            St::OscStart => match c {
                'R' => St::Ground,
                'P' => St::OscP(7),
                _ => {
                    // the first character of the string is handled like every other one
                    self.st = St::OscStr { buf: String::new(), esc_pending: false };
                    self.step(c);
                    return;
                }
            },
            St::OscP(n) => {
                if !c.is_ascii_hexdigit() {
                    // "seven hexadecimal digits follow": anything else is not specified
                    self.d8 = true;
                }
                if n <= 1 {
                    St::Ground
                } else {
                    St::OscP(n - 1)
                }
            }
            St::OscStr { mut buf, esc_pending } => {
                if esc_pending {
                    if c == '\\' {
                        self.osc_end(&buf);
                        St::Ground
                    } else {
                        if c == '\x1b' || c == '\x07' || c == '\u{9c}' {
                            self.d8 = true;
                        }
                        buf.push('\x1b');
                        buf.push(c);
                        St::OscStr { buf, esc_pending: false }
                    }
                } else if c == '\x07' || c == '\u{9c}' {
                    self.osc_end(&buf);
                    St::Ground
                } else if c == '\x1b' {
                    St::OscStr { buf, esc_pending: true }
                } else {
                    buf.push(c);
                    St::OscStr { buf, esc_pending: false }
                }
            }
        };
    }

    fn osc_end(&mut self, buf: &str) {
        // command number = text before the first ';', payload = text after it
        match buf.split_once(';') {
            Some((code, payload)) => match code {
                "0" => {
                    self.out.push(Op::SetIconName(payload.to_string()));
                    self.out.push(Op::SetTitle(payload.to_string()));
                }
                "1" => self.out.push(Op::SetIconName(payload.to_string())),
                "2" => self.out.push(Op::SetTitle(payload.to_string())),
                _ => {}
            },
            None => {
                if !buf.is_empty() {
                    self.d8_labels = true;
                }
            }
        }
    }

    pub fn feed(&mut self, s: &str) {
        for c in s.chars() {
            self.step(c);
        }
    }

    pub fn in_ground(&self) -> bool {
        self.st == St::Ground
    }
}

pub fn recognise(s: &str, utf8: bool) -> (Vec<Op>, bool, bool) {
    let mut r = Recog::new(utf8);
    r.feed(s);
    let g = r.in_ground();
    (r.out, g, r.d8)
}

/// Everything the comparisons need: both readings of D15 (the second only when it matters).
pub struct Recognised {
    pub events: Vec<Op>,
    /// the ECMA-48 reading (ESC restarts a sequence), when it differs
    pub events_alt: Option<Vec<Op>>,
    pub ground: bool,
    pub d8: bool,
    pub d8_labels: bool,
    pub d10_events: Vec<usize>,
}

pub fn recognise_full(s: &str, utf8: bool) -> Recognised {
    let mut r = Recog::new(utf8);
    r.feed(s);
    let mut alt = None;
    let (mut d8, mut d8_labels, mut ground) = (r.d8, r.d8_labels, r.in_ground());
    if r.restart_seen {
        let mut r2 = Recog::new(utf8);
        r2.esc_restarts = true;
        r2.feed(s);
        d8 |= r2.d8;
        d8_labels |= r2.d8_labels;
        ground &= r2.in_ground();
        if r2.out != r.out {
            alt = Some(r2.out);
        }
    }
    Recognised { events: r.out, events_alt: alt, ground, d8, d8_labels, d10_events: r.d10_events }
}

/// drop the label events (D8: OSC string without `;`)
pub fn without_labels(ev: &[Op]) -> Vec<Op> {
    ev.iter().filter(|e| !matches!(e, Op::SetTitle(_) | Op::SetIconName(_))).cloned().collect()
}

/// like `recognise`, also reporting whether a CAN / SUB abort occurred (D10)
pub fn recognise_d10(s: &str, utf8: bool) -> (Vec<Op>, bool, Vec<usize>) {
    let mut r = Recog::new(utf8);
    r.feed(s);
    (r.out, r.d8, r.d10_events)
}

/// Can this character ever print (width > 0 or combining)? D10 strips the others.
pub fn never_prints(c: char) -> bool {
    let u = c as u32;
    u < 0x20 || u == 0x7f || (0x80..0xa0).contains(&u)
}

/// Normalise an event list for comparison: strip D10 characters from text
/// events, merge adjacent text, drop empty text, map Some(0) -> None in numeric
/// option arguments ("empty = 0").
pub fn normalise(ev: &[Op]) -> Vec<Op> {
    use Op::*;
    let z = |p: &Option<u32>| -> Option<u32> {
        match p {
            Some(0) => None,
            x => *x,
        }
    };
    let mut out: Vec<Op> = Vec::new();
    for e in ev {
        let e2 = match e {
            Draw(s) => {
                let t: String = s.chars().filter(|c| !never_prints(*c)).collect();
                if t.is_empty() {
                    continue;
                }
                if let Some(Draw(prev)) = out.last_mut() {
                    prev.push_str(&t);
                    continue;
                }
                Draw(t)
            }
            // B3: whether an unsupported designator is handed to the listener (which ignores it) is open
            DefineCharset(code, _) if !matches!(code.as_str(), "B" | "0" | "U" | "V") => continue,
            // "empty = 0"
            Sgr(v) if v.is_empty() => Sgr(vec![0]),
            Ich(p) => Ich(z(p)),
            Cuu(p) => Cuu(z(p)),
            Cud(p) => Cud(z(p)),
            Cuf(p) => Cuf(z(p)),
            Cub(p) => Cub(z(p)),
            Cnl(p) => Cnl(z(p)),
            Cpl(p) => Cpl(z(p)),
            Cha(p) => Cha(z(p)),
            Cup(a, b) => Cup(z(a), z(b)),
            Ed(p) => Ed(z(p)),
            El(p) => El(z(p)),
            Il(p) => Il(z(p)),
            Dl(p) => Dl(z(p)),
            Dch(p) => Dch(z(p)),
            Ech(p) => Ech(z(p)),
            Da(p) => Da(z(p)),
            Vpa(p) => Vpa(z(p)),
            Tbc(p) => Tbc(z(p)),
            SetMargins(a, b) => SetMargins(z(a), z(b)),
            o => o.clone(),
        };
        out.push(e2);
    }
    out
}
