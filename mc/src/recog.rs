//! Reference escape-sequence recogniser: an explicit finite-state machine
//! written from C03's statement (DESIGN.md 6.1). Output vocabulary = `Op`
//! (the ParserListener methods).

use crate::ops::Op;

#[derive(Clone, Debug, PartialEq)]
pub enum St {
    Ground,
    Esc,
    EscHash,
    EscPercent,
    EscCharset(char),
    Csi { params: Vec<u32>, cur: Option<u32>, private: bool },
    CsiDollar,
    OscCode,
    OscP(u8),
    OscStr { code: char, buf: String, esc_pending: bool },
}

pub struct Recog {
    pub st: St,
    pub utf8: bool,
    pub out: Vec<Op>,
    /// set when a D8 (declared don't-care) OSC shape was seen
    pub d8: bool,
    /// CAN / SUB aborted a CSI (D10: whether that character is handed to draw() is not specified;
    /// it matters only under a charset that maps 0x18 / 0x1a to a printable glyph)
    pub d10_abort: bool,
    /// indices into `out` of the (unmerged) text events holding an aborting CAN / SUB
    pub d10_events: Vec<usize>,
    no_merge: bool,
}

fn p0(v: &[u32], i: usize) -> Option<u32> {
    v.get(i).cloned()
}

impl Recog {
    pub fn new(utf8: bool) -> Recog {
        Recog { st: St::Ground, utf8, out: Vec::new(), d8: false, d10_abort: false, d10_events: Vec::new(), no_merge: false }
    }

    fn text(&mut self, c: char) {
        if !self.no_merge {
            if let Some(Op::Draw(s)) = self.out.last_mut() {
                s.push(c);
                return;
            }
        }
        self.no_merge = false;
        self.out.push(Op::Draw(c.to_string()));
    }

    fn c0(&mut self, c: char) -> bool {
        // controls executed both in ground state and inside a CSI
        let op = match c {
            '\x07' => Op::Bell,
            '\x08' => Op::Backspace,
            '\x09' => Op::Tab,
            '\x0a' | '\x0b' | '\x0c' => Op::Linefeed,
            '\x0d' => Op::CarriageReturn,
            _ => return false,
        };
        self.out.push(op);
        true
    }

    fn csi_dispatch(&mut self, f: char, v: &[u32], private: bool) {
        let a = p0(v, 0);
        let op = match f {
            '@' => Op::Ich(a),
            'A' => Op::Cuu(a),
            'B' => Op::Cud(a),
            'C' => Op::Cuf(a),
            'D' => Op::Cub(a),
            'E' => Op::Cnl(a),
            'F' => Op::Cpl(a),
            'G' => Op::Cha(a),
            'H' | 'f' => Op::Cup(a, p0(v, 1)),
            'J' => Op::Ed(a),
            'K' => Op::El(a),
            'L' => Op::Il(a),
            'M' => Op::Dl(a),
            'P' => Op::Dch(a),
            'X' => Op::Ech(a),
            'a' => Op::Cuf(a),
            'c' => Op::Da(a),
            'd' => Op::Vpa(a),
            'e' => Op::Cud(a),
            'g' => Op::Tbc(a),
            'h' => Op::Sm(v.to_vec(), private),
            'l' => Op::Rm(v.to_vec(), private),
            'm' => Op::Sgr(v.to_vec()),
            'r' => Op::SetMargins(a, p0(v, 1)),
            _ => return,
        };
        self.out.push(op);
    }

    pub fn step(&mut self, c: char) {
        let st = std::mem::replace(&mut self.st, St::Ground);
        self.st = match st {
            St::Ground => match c {
                '\x1b' => St::Esc,
                '\u{9b}' => St::Csi { params: vec![], cur: None, private: false },
                '\u{9d}' => St::OscCode,
                '\x0e' | '\x0f' => {
                    if !self.utf8 {
                        self.out.push(if c == '\x0e' { Op::ShiftOut } else { Op::ShiftIn });
                    }
                    St::Ground
                }
                _ => {
                    if !self.c0(c) {
                        self.text(c);
                    }
                    St::Ground
                }
            },
            St::Esc => match c {
                '[' => St::Csi { params: vec![], cur: None, private: false },
                ']' => St::OscCode,
                '#' => St::EscHash,
                '%' => St::EscPercent,
                '(' | ')' => St::EscCharset(c),
                _ => {
                    match c {
                        'c' => self.out.push(Op::Reset),
                        'D' => self.out.push(Op::Index),
                        'E' => self.out.push(Op::Linefeed),
                        'M' => self.out.push(Op::ReverseIndex),
                        'H' => self.out.push(Op::SetTabStop),
                        '7' => self.out.push(Op::SaveCursor),
                        '8' => self.out.push(Op::RestoreCursor),
                        _ => {}
                    }
                    St::Ground
                }
            },
            St::EscHash => {
                if c == '8' {
                    self.out.push(Op::AlignmentDisplay);
                }
                St::Ground
            }
            St::EscPercent => St::Ground,
            St::EscCharset(g) => {
                if !self.utf8 {
                    self.out.push(Op::DefineCharset(c.to_string(), g.to_string()));
                }
                St::Ground
            }
            St::Csi { mut params, mut cur, mut private } => {
                if c.is_ascii_digit() {
                    let d = c as u32 - '0' as u32;
                    cur = Some(u32::min(cur.unwrap_or(0).saturating_mul(10).saturating_add(d), 9999));
                    St::Csi { params, cur, private }
                } else if c == ';' {
                    params.push(cur.unwrap_or(0));
                    St::Csi { params, cur: None, private }
                } else if c == '?' {
                    private = true;
                    St::Csi { params, cur, private }
                } else if c == ' ' || c == '>' {
                    St::Csi { params, cur, private }
                } else if c == '\x18' || c == '\x1a' {
                    // CAN / SUB abort the sequence. The character itself is handed to
                    // draw() by the documented parser (it never prints): D10.
                    // its own event, never merged with the text around it
                    self.no_merge = true;
                    self.text(c);
                    self.no_merge = true;
                    self.d10_abort = true;
                    self.d10_events.push(self.out.len() - 1);
                    St::Ground
                } else if c == '$' {
                    St::CsiDollar
                } else if self.c0(c) {
                    St::Csi { params, cur, private }
                } else {
                    params.push(cur.unwrap_or(0));
                    self.csi_dispatch(c, &params, private);
                    St::Ground
                }
            }
            St::CsiDollar => St::Ground,
            St::OscCode => match c {
                'R' => St::Ground,
                'P' => St::OscP(7),
                _ => {
                    if c == '\x1b' || c == '\x07' || c == '\u{9c}' {
                        self.d8 = true;
                    }
                    St::OscStr { code: c, buf: String::new(), esc_pending: false }
                }
            },
            St::OscP(n) => {
                if n <= 1 {
                    St::Ground
                } else {
                    St::OscP(n - 1)
                }
            }
            St::OscStr { code, mut buf, esc_pending } => {
                if esc_pending {
                    if c == '\\' {
                        self.osc_end(code, &buf);
                        St::Ground
                    } else {
                        if c == '\x1b' || c == '\x07' || c == '\u{9c}' {
                            self.d8 = true;
                        }
                        buf.push('\x1b');
                        buf.push(c);
                        St::OscStr { code, buf, esc_pending: false }
                    }
                } else if c == '\x07' || c == '\u{9c}' {
                    self.osc_end(code, &buf);
                    St::Ground
                } else if c == '\x1b' {
                    St::OscStr { code, buf, esc_pending: true }
                } else {
                    buf.push(c);
                    St::OscStr { code, buf, esc_pending: false }
                }
            }
        };
    }

    fn osc_end(&mut self, code: char, buf: &str) {
        // payload = text after the first ';'
        let payload = match buf.find(';') {
            Some(i) => {
                if i != 0 {
                    // multi-character code such as "10;..." : D8
                    self.d8 = true;
                }
                buf[i + 1..].to_string()
            }
            None => {
                self.d8 = true;
                String::new()
            }
        };
        match code {
            '0' => {
                self.out.push(Op::SetIconName(payload.clone()));
                self.out.push(Op::SetTitle(payload));
            }
            '1' => self.out.push(Op::SetIconName(payload)),
            '2' => self.out.push(Op::SetTitle(payload)),
            _ => {}
        }
    }

    pub fn feed(&mut self, s: &str) {
        for c in s.chars() {
            self.step(c);
        }
    }

    pub fn in_ground(&self) -> bool {
        self.st == St::Ground
    }
}

pub fn recognise(s: &str, utf8: bool) -> (Vec<Op>, bool, bool) {
    let mut r = Recog::new(utf8);
    r.feed(s);
    let g = r.in_ground();
    (r.out, g, r.d8)
}

/// like `recognise`, also reporting whether a CAN / SUB abort occurred (D10)
pub fn recognise_d10(s: &str, utf8: bool) -> (Vec<Op>, bool, Vec<usize>) {
    let mut r = Recog::new(utf8);
    r.feed(s);
    (r.out, r.d8, r.d10_events)
}

/// Can this character ever print (width > 0 or combining)? D10 strips the others.
pub fn never_prints(c: char) -> bool {
    let u = c as u32;
    u < 0x20 || u == 0x7f || (0x80..0xa0).contains(&u)
}

/// Normalise an event list for comparison: strip D10 characters from text
/// events, merge adjacent text, drop empty text, map Some(0) -> None in numeric
/// option arguments ("empty = 0").
pub fn normalise(ev: &[Op]) -> Vec<Op> {
    use Op::*;
    let z = |p: &Option<u32>| -> Option<u32> {
        match p {
            Some(0) => None,
            x => *x,
        }
    };
    let mut out: Vec<Op> = Vec::new();
    for e in ev {
        let e2 = match e {
            Draw(s) => {
                let t: String = s.chars().filter(|c| !never_prints(*c)).collect();
                if t.is_empty() {
                    continue;
                }
                if let Some(Draw(prev)) = out.last_mut() {
                    prev.push_str(&t);
                    continue;
                }
                Draw(t)
            }
            Ich(p) => Ich(z(p)),
            Cuu(p) => Cuu(z(p)),
            Cud(p) => Cud(z(p)),
            Cuf(p) => Cuf(z(p)),
            Cub(p) => Cub(z(p)),
            Cnl(p) => Cnl(z(p)),
            Cpl(p) => Cpl(z(p)),
            Cha(p) => Cha(z(p)),
            Cup(a, b) => Cup(z(a), z(b)),
            Ed(p) => Ed(z(p)),
            El(p) => El(z(p)),
            Il(p) => Il(z(p)),
            Dl(p) => Dl(z(p)),
            Dch(p) => Dch(z(p)),
            Ech(p) => Ech(z(p)),
            Da(p) => Da(z(p)),
            Vpa(p) => Vpa(z(p)),
            Tbc(p) => Tbc(z(p)),
            SetMargins(a, b) => SetMargins(z(a), z(b)),
            o => o.clone(),
        };
        out.push(e2);
    }
    out
}
