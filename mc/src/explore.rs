//! Explicit-state exploration of real `Screen` values: depth-1 sweeps over
//! product base states and level-synchronous BFS with full-key dedup.

use std::collections::{BTreeMap, HashSet};
use std::sync::atomic::{AtomicUsize, Ordering};
use std::sync::{Arc, Mutex};

use memterm::screen::Screen;

use crate::ops::{apply, Op};
use crate::report::Collector;
use crate::snapshot::{full_key, snap, snap_key, Snap};

pub fn n_threads() -> usize {
    std::env::var("VERIF_THREADS")
        .ok()
        .and_then(|s| s.parse().ok())
        .unwrap_or_else(|| std::thread::available_parallelism().map(|n| n.get()).unwrap_or(4))
        .max(1)
}

/// Run `f(i)` for i in 0..n on all cores (dynamic chunks), results in index order.
pub fn par_map<T: Send, F: Fn(usize) -> T + Sync>(n: usize, f: F) -> Vec<T> {
    let next = AtomicUsize::new(0);
    let out: Mutex<Vec<(usize, T)>> = Mutex::new(Vec::with_capacity(n));
    let threads = n_threads().min(n.max(1));
    std::thread::scope(|sc| {
        for _ in 0..threads {
            sc.spawn(|| {
                let mut local: Vec<(usize, T)> = Vec::new();
                loop {
                    let i = next.fetch_add(1, Ordering::Relaxed);
                    if i >= n {
                        break;
                    }
                    local.push((i, f(i)));
                }
                out.lock().unwrap().extend(local);
            });
        }
    });
    let mut v = out.into_inner().unwrap();
    v.sort_by_key(|(i, _)| *i);
    v.into_iter().map(|(_, t)| t).collect()
}

/// A reachable base state with the script that builds it.
#[derive(Clone)]
pub struct Base {
    pub columns: u32,
    pub lines: u32,
    pub script: Vec<Op>,
    pub screen: Screen,
}

pub struct Trans<'a> {
    pub columns: u32,
    pub lines: u32,
    /// script reaching `pre` from Screen::new(columns, lines)
    pub script: &'a [Op],
    pub pre: &'a Snap,
    pub pre_screen: &'a Screen,
    pub op: &'a Op,
    /// Ok((post screen, post snapshot, display output)) or Err(panic message)
    pub outcome: &'a Result<(Screen, Snap, Option<Vec<String>>), String>,
}

/// Per-thread accumulation for a campaign.
#[derive(Default)]
pub struct Local {
    pub transitions: u64,
    pub outcomes: HashSet<u64>,
    pub counts: BTreeMap<&'static str, u64>,
}

impl Local {
    /// distinct-outcome bookkeeping, bounded per worker (the count is a lower bound beyond that)
    pub fn outcome(&mut self, k: u64) {
        if self.outcomes.len() < 1_000_000 {
            self.outcomes.insert(k);
        }
    }
    pub fn count(&mut self, k: &'static str) {
        *self.counts.entry(k).or_insert(0) += 1;
    }
    pub fn flush(&mut self, c: &Collector) {
        c.add_transitions(self.transitions);
        c.outcomes(&self.outcomes);
        c.merge_counts(&self.counts);
        self.transitions = 0;
        self.outcomes.clear();
        self.counts.clear();
    }
}

pub fn run_op(pre_screen: &Screen, op: &Op) -> Result<(Screen, Snap, Option<Vec<String>>), String> {
    let mut s = pre_screen.clone();
    match apply(&mut s, op) {
        Ok(d) => {
            let sn = snap(&s);
            Ok((s, sn, d))
        }
        Err(m) => Err(m),
    }
}

/// Depth-1 sweep: every (base state, op) pair, judged by `judge`. Runs in forked
/// single-threaded worker processes (parser-path operations are safe there, and
/// an abort/hang of the subject is contained). Must be called while the calling
/// process is single-threaded.
pub fn sweep<OF, J>(c: &Collector, bases: &[Base], ops_for: OF, judge: J)
where
    OF: Fn(&Base) -> Vec<Op>,
    J: Fn(&Collector, &Trans, &mut Local),
{
    c.add_states(bases.len() as u64);
    if bases.is_empty() {
        return;
    }
    let t0 = std::time::Instant::now();
    let tr0 = c.transitions.load(std::sync::atomic::Ordering::Relaxed);
    let nparts = (n_threads() * 4).min(bases.len());
    let timeout = std::time::Duration::from_secs(if c.thorough() { sweep_timeout_s() } else { sweep_timeout_s().min(600) });
    let body = |part: usize, cc: &Collector| {
        let mut local = Local::default();
        let mut i = part;
        let mut sampled = 0;
        while i < bases.len() {
            let b = &bases[i];
            let pre = snap(&b.screen);
            for op in ops_for(b) {
                let outcome = run_op(&b.screen, &op);
                local.transitions += 1;
                if let Ok((_, sn, _)) = &outcome {
                    local.outcome(snap_key(sn));
                }
                let t = Trans {
                    columns: b.columns,
                    lines: b.lines,
                    script: &b.script,
                    pre: &pre,
                    pre_screen: &b.screen,
                    op: &op,
                    outcome: &outcome,
                };
                judge(cc, &t, &mut local);
                if sampled < 2 && (i == 0 || i == bases.len() / 2) {
                    // write out an actual case of this sweep
                    sampled += 1;
                    cc.sample(serde_json::json!({
                        "kind": "sweep transition",
                        "geometry": format!("{}x{}", b.columns, b.lines),
                        "base_script": b.script.iter().map(|o| o.short()).collect::<Vec<_>>(),
                        "op": op.short(),
                        "outcome": match &outcome {
                            Ok((_, sn, _)) => format!("cursor ({},{}) rows {:?}", sn.cursor.x, sn.cursor.y, sn.grid_text().iter().take(4).collect::<Vec<_>>()),
                            Err(m) => format!("panic: {}", m),
                        },
                    }));
                }
            }
            sampled = 0;
            i += nparts;
        }
        local.flush(cc);
    };
    let crashes = crate::isolate::fork_map(c, nparts, timeout, &body);
    let mut reruns = 0;
    for cr in crashes {
        // C01 owns "no abort, no unbounded loop": there an abnormal worker end that reproduces when
        // the partition is run again alone is the verdict; everywhere else (and when it does not
        // reproduce) it is a machinery error
        if c.property == "C01" && reruns < 3 {
            if let Some(part) = cr.last_part {
                reruns += 1;
                let scratch = Collector::new(&c.property, &c.tier);
                let again = crate::isolate::fork_map(&scratch, 1, timeout, |_, cc| body(part, cc));
                if let Some(a) = again.first() {
                    let b = &bases[part.min(bases.len() - 1)];
                    c.violation(crate::report::Violation {
                        property: "C01".into(),
                        engine: "E5.api.sweep".into(),
                        sig: format!("worker-abnormal-end|{}", if a.how.contains("timeout") { "hang (watchdog)".to_string() } else { a.how.clone() }),
                        columns: b.columns,
                        lines: b.lines,
                        script: b.script.clone(),
                        op: None,
                        detail: format!(
                            "a worker applying direct API calls ended abnormally twice ({}; then {}) in partition {} of {} (base states {}, {}+{}, ...); the script shown reaches the first base state of that partition",
                            cr.how, a.how, part, nparts, part, part, nparts
                        ),
                        extra: serde_json::json!({"partition": part, "partitions": nparts}),
                    });
                    continue;
                }
            }
        }
        c.crash(format!("sweep worker {} ended abnormally ({}), last partition {:?}", cr.child, cr.how, cr.last_part));
    }
    if std::env::var("VERIF_VERBOSE").is_ok() {
        eprintln!(
            "[sweep] bases={} transitions={} {:.1}s",
            bases.len(),
            c.transitions.load(std::sync::atomic::Ordering::Relaxed) - tr0,
            t0.elapsed().as_secs_f64()
        );
    }
}

pub fn sweep_timeout_s() -> u64 {
    std::env::var("VERIF_WORKER_TIMEOUT_S").ok().and_then(|s| s.parse().ok()).unwrap_or(3600)
}

pub struct PathNode {
    pub parent: Option<Arc<PathNode>>,
    pub op: Op,
}

pub fn path_ops(base: &[Op], p: &Option<Arc<PathNode>>) -> Vec<Op> {
    let mut rev = Vec::new();
    let mut cur = p.clone();
    while let Some(n) = cur {
        rev.push(n.op.clone());
        cur = n.parent.clone();
    }
    rev.reverse();
    let mut v = base.to_vec();
    v.extend(rev);
    v
}

struct Node {
    seed: usize,
    screen: Screen,
    path: Option<Arc<PathNode>>,
    /// descends from an operation whose results are never merged: its whole subtree is a tree
    tainted: bool,
}

pub fn max_frontier() -> usize {
    std::env::var("VERIF_MAX_FRONTIER").ok().and_then(|s| s.parse().ok()).unwrap_or(1_200_000)
}

pub struct BfsStats {
    pub levels: Vec<usize>,
    pub states: usize,
    pub capped: bool,
}

/// Level-synchronous BFS from `seeds` with alphabet `ops_for(state)`, to `depth`,
/// dedup on the full key. `judge` is called on every transition (also the ones
/// leading to already-seen states). States produced by a panicking op are not expanded.
/// `expand(post)` may veto expansion (e.g. ill-formed states).
pub fn bfs<OF, J>(c: &Collector, seeds: &[Base], depth: usize, max_states: usize, ops_for: OF, judge: J) -> BfsStats
where
    OF: Fn(&Screen) -> Vec<Op> + Sync,
    J: Fn(&Collector, &Trans, &mut Local) -> bool + Sync,
{
    bfs_nd(c, seeds, depth, max_states, ops_for, judge, |_| false)
}

/// BFS where the children produced by operations selected by `always_expand`, AND everything
/// that descends from them, are never merged with states seen before (below such an operation
/// the exploration is a tree). The state key only covers the fields this harness knows about; an
/// operation that is supposed to re-initialise everything (reset) is exactly where a cache or a
/// field the key does not cover would be left stale, so its results are explored again.
pub fn bfs_nd<OF, J, ND>(
    c: &Collector,
    seeds: &[Base],
    depth: usize,
    max_states: usize,
    ops_for: OF,
    judge: J,
    always_expand: ND,
) -> BfsStats
where
    OF: Fn(&Screen) -> Vec<Op> + Sync,
    J: Fn(&Collector, &Trans, &mut Local) -> bool + Sync,
    ND: Fn(&Op) -> bool + Sync,
{
    let t0 = std::time::Instant::now();
    let mut seen: HashSet<u128> = HashSet::new();
    let mut frontier: Vec<Node> = Vec::new();
    for (i, b) in seeds.iter().enumerate() {
        if seen.insert(full_key(&b.screen)) {
            frontier.push(Node { seed: i, screen: b.screen.clone(), path: None, tainted: false });
        }
    }
    let mut levels = vec![frontier.len()];
    let mut capped = false;
    let mut extra_states = 0usize;
    let mut deepest: Option<(usize, Vec<Op>)> = None;
    for d in 0..depth {
        if frontier.is_empty() {
            break;
        }
        let fr = &frontier;
        // pass 1: execute + judge every transition; keep only the keys of the children
        let children: Vec<Vec<(u128, u32)>> = par_map(fr.len(), |i| {
            let n = &fr[i];
            let b = &seeds[n.seed];
            let script = path_ops(&b.script, &n.path);
            let pre = snap(&n.screen);
            let mut local = Local::default();
            let mut out = Vec::new();
            for (oi, op) in ops_for(&n.screen).into_iter().enumerate() {
                assert!(
                    !matches!(op, Op::Feed(..) | Op::FeedBytes(..)),
                    "parser-path operations are not allowed in the multi-threaded BFS"
                );
                let outcome = run_op(&n.screen, &op);
                local.transitions += 1;
                if let Ok((_, sn, _)) = &outcome {
                    local.outcome(snap_key(sn));
                }
                let t = Trans {
                    columns: b.columns,
                    lines: b.lines,
                    script: &script,
                    pre: &pre,
                    pre_screen: &n.screen,
                    op: &op,
                    outcome: &outcome,
                };
                let expand = judge(c, &t, &mut local);
                if expand {
                    if let Ok((s, _, _)) = &outcome {
                        // key 0 = "do not merge" marker (a real key of 0 has probability 2^-128)
                        out.push((if n.tainted || always_expand(&op) { 0 } else { full_key(s) }, oi as u32));
                    }
                }
            }
            local.flush(c);
            out
        });
        // deterministic dedup in (parent, op) order
        let mut winners: Vec<Vec<u32>> = vec![Vec::new(); fr.len()];
        let mut n_new = 0usize;
        'outer: for (i, group) in children.iter().enumerate() {
            for (k, oi) in group {
                if seen.len() >= max_states {
                    capped = true;
                    break 'outer;
                }
                if *k == 0 || seen.insert(*k) {
                    winners[i].push(*oi);
                    n_new += 1;
                    if *k == 0 {
                        extra_states += 1;
                    }
                }
            }
        }
        levels.push(n_new);
        if let Some((i, w)) = winners.iter().enumerate().rev().find(|(_, w)| !w.is_empty()) {
            let n = &fr[i];
            let mut path = path_ops(&seeds[n.seed].script, &n.path);
            path.push(ops_for(&n.screen)[*w.last().unwrap() as usize].clone());
            deepest = Some((n.seed, path));
        }
        if capped || d + 1 == depth {
            // the last level is counted (and every transition into it was judged) but not materialised
            break;
        }
        if n_new > max_frontier() {
            // materialising this level would need too much memory: stop here and say so
            capped = true;
            c.cap(format!("bfs frontier cap: level {} has {} new states (> {}), not expanded further", levels.len() - 1, n_new, max_frontier()));
            break;
        }
        // pass 2: materialise the new states only
        let next: Vec<Vec<Node>> = par_map(fr.len(), |i| {
            let w = &winners[i];
            if w.is_empty() {
                return Vec::new();
            }
            let n = &fr[i];
            let ops = ops_for(&n.screen);
            let mut out = Vec::with_capacity(w.len());
            for oi in w {
                let op = &ops[*oi as usize];
                let mut s = n.screen.clone();
                if apply(&mut s, op).is_ok() {
                    out.push(Node {
                        seed: n.seed,
                        screen: s,
                        path: Some(Arc::new(PathNode { parent: n.path.clone(), op: op.clone() })),
                        tainted: n.tainted || always_expand(op),
                    });
                }
            }
            out
        });
        frontier = next.into_iter().flatten().collect();
    }
    if capped && seen.len() >= max_states {
        c.cap(format!("bfs state cap {} reached at level {}", max_states, levels.len() - 1));
    }
    if let Some((seed, path)) = deepest {
        let b = &seeds[seed];
        c.sample(serde_json::json!({
            "kind": "bfs history (last new state of the deepest level)",
            "geometry": format!("{}x{}", b.columns, b.lines),
            "history": path.iter().map(|o| o.short()).collect::<Vec<_>>(),
            "levels": levels,
        }));
    }
    if std::env::var("VERIF_VERBOSE").is_ok() {
        eprintln!("[bfs] seeds={} levels={:?} states={} {:.1}s", seeds.len(), levels, seen.len(), t0.elapsed().as_secs_f64());
    }
    c.add_states((seen.len() + extra_states) as u64);
    BfsStats { levels, states: seen.len(), capped }
}
